"""Fresh-interpreter configurations (DESIGN 4.3): pre-imported module set, stdout kind/encoding, hash seed,
locale, time zone, working directory.  A job is a JSON file; the result comes back through another file, so
the child's real stdout can be anything (ASCII, Latin-1, closed)."""
from __future__ import annotations

import json
import os
import subprocess
import sys

from .core import REPO
from .tlc import MachineryFailure

HARNESS = os.path.dirname(os.path.dirname(os.path.abspath(__file__)))

PREIMPORT_SETS = {
    "none": [],
    "backends": ["cryptography.hazmat.backends"],
    "hashes": ["cryptography.hazmat.primitives.hashes", "cryptography.hazmat.backends"],
    "cli": ["conda_content_trust.cli"],
    "root_signing": ["conda_content_trust.root_signing"],
    "json_decimal": ["decimal", "json.decoder", "locale"],
}

CONFIGS = [  # name, preimports, env overrides, stdout kind
    ("plain-utf8", "none", {"PYTHONIOENCODING": "utf-8", "LC_ALL": "C.utf8", "PYTHONHASHSEED": "0"}, "pipe"),
    ("ascii-stdout", "none", {"PYTHONIOENCODING": "ascii", "LC_ALL": "C", "PYTHONHASHSEED": "1"}, "pipe"),
    ("latin1-stdout", "cli", {"PYTHONIOENCODING": "latin-1", "LC_ALL": "POSIX", "PYTHONHASHSEED": "random", "TZ": "Asia/Tokyo"}, "pipe"),
    ("closed-stdout", "root_signing", {"PYTHONHASHSEED": "4242", "TZ": "America/Los_Angeles"}, "closed"),
    ("preimported-backends", "hashes", {"PYTHONIOENCODING": "utf-8", "PYTHONHASHSEED": "7"}, "devnull"),
    # a legacy (non-UTF-8) locale: open() and the standard streams default to ASCII
    ("legacy-locale", "none", {"LC_ALL": "C", "PYTHONUTF8": "0", "PYTHONCOERCECLOCALE": "0", "PYTHONHASHSEED": "11"}, "pipe"),
    # variables that build and packaging environments commonly export
    ("build-env", "json_decimal", {"SOURCE_DATE_EPOCH": "1500000000", "TZ": "Pacific/Kiritimati", "PYTHONINTMAXSTRDIGITS": "0", "PYTHONOPTIMIZE": "1",
                                   "COLUMNS": "20", "LANG": "tr_TR.UTF-8", "PYTHONHASHSEED": "12", "NO_COLOR": "1", "CI": "true", "HOME": "/nonexistent"}, "devnull"),
]


def run_job(run, job: dict, config, cwd=None, timeout=600):
    """job: {"task": name in subworker.TASKS, ...}.  Returns the decoded result."""
    name, pre, env, kind = config
    jp = os.path.join(run.scratch, f"job-{name}-{os.getpid()}-{id(job)}.json")
    rp = jp + ".out"
    job = dict(job, preimports=PREIMPORT_SETS[pre], result=rp, config=name)
    with open(jp, "w") as f:
        json.dump(job, f)
    e = {k: v for k, v in os.environ.items() if k not in ("PYTHONIOENCODING", "LC_ALL", "LANG", "TZ", "PYTHONUTF8")}
    e.update(env)
    e["PYTHONPATH"] = HARNESS
    e["VERIF_REPO"] = REPO
    e["PYTHONDONTWRITEBYTECODE"] = "1"
    out = {"pipe": subprocess.PIPE, "devnull": subprocess.DEVNULL, "closed": None}[kind]
    kw = {}
    if kind == "closed":
        kw["preexec_fn"] = lambda: os.close(1)
    p = subprocess.run([sys.executable, "-W", "ignore", "-m", "cctverif.subworker", jp], env=e, cwd=cwd or run.scratch,
                       stdout=out, stderr=subprocess.PIPE, timeout=timeout, **kw)
    if not os.path.exists(rp):
        raise MachineryFailure(f"subworker {name} produced no result (rc={p.returncode}): {p.stderr.decode(errors='replace')[-2000:]}")
    with open(rp) as f:
        res = json.load(f)
    os.unlink(rp)
    os.unlink(jp)
    return res
