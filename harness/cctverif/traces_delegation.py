"""code -> spec for verify_delegation: fixtures and seeded random calls judged by Trace_Delegation.tla."""
from __future__ import annotations

import copy
import json
import os
import random

from . import crypto, gamma, lib, metadata
from .core import REPO
from .traces_root import KeyIndex, alpha_entries
from .traces_verify import NJ, NK, validate
from .twins import ACCEPT, REJECT, UNSPEC, twin_canon, twin_schema, twin_signed_part

JSON_TYPES = (dict, list, str, int, float, bool, type(None))


def alpha_call(role, untrusted, trusted, gpg, outcome):
    ki = KeyIndex()
    if not isinstance(role, str) or not isinstance(gpg, bool):
        return None
    tv = twin_schema(trusted)
    if tv == UNSPEC:
        return None
    trule = {"keys": [], "thr": 0}
    if tv == ACCEPT:
        rr = trusted["signed"]["delegations"].get(role)
        if rr is not None:
            trule = {"keys": sorted(ki(k) for k in rr["pubkeys"]), "thr": min(rr["threshold"], 10 ** 6)}
    env_ok = (isinstance(untrusted, dict) and set(untrusted) == {"signatures", "signed"}
              and isinstance(untrusted["signatures"], dict) and type(untrusted["signed"]) in JSON_TYPES)
    ukind, utype = "plain", "-"
    entries = []
    if env_ok:
        sv = twin_signed_part(untrusted["signed"])
        if sv == UNSPEC:
            return None
        if sv == ACCEPT:
            ukind, utype = "deleg", untrusted["signed"]["type"]
        entries, na, nj = alpha_entries(untrusted, ki)
        if len(ki.idx) > NK or nj > NJ:
            return None
    sym_role = role if role in ("root", "key_mgr") else "pkg_mgr"
    return {"api": "verify_delegation", "role": sym_role, "trule": trule, "ukind": ukind, "utype": utype, "argbad": "none",
            "twf": 0 if tv == ACCEPT else 1, "uenv": 0 if env_ok else 1, "gpg": gpg, "entries": entries,
            "outcome": lib.family(outcome)}


def judge(run, traces, conc, owner, label):
    if not traces:
        return
    seen = validate(run, traces, cfg="Trace_Delegation.cfg", module="Trace_Delegation")
    for t in traces:
        rejected = False
        for i, ev in enumerate(t["events"], 1):
            line = seen[(t["id"], i)]
            if not line["ok"]:
                rejected = True
                o = {"observed": ev["outcome"], "allowed": line["allowed"], "case": line, "variant": "trace"}
                if owner(o):
                    run.violation(f"{label} verify_delegation role={ev['role']} untrusted={ev['ukind']}:{ev['utype']} gpg={ev['gpg']} "
                                  f"mismatch={line['mismatch']} unknown={line['unknown']} meets={line['meets']} "
                                  f"allowed={'|'.join(sorted(line['allowed']))} observed={ev['outcome']}",
                                  {"kind": "verify_delegation", "concrete": conc[t["id"]][i - 1], "allowed": line["allowed"],
                                   "event": ev, "trace_id": t["id"], "event_index": i})
                else:
                    run.note_drift(f"{label}: event outside Allowed owned by another property: observed={ev['outcome']}")
            elif line["predicted"] != ev["outcome"]:
                run.note_drift(f"{label}: implementation-layer prediction {line['predicted']} vs observed {ev['outcome']}")
        if not rejected:
            run.traces_validated += 1
    run.sample({label: traces[0]})


def _exec(fn, role, untrusted, trusted, gpg):
    out, exc, _ = lib.call(fn, role, copy.deepcopy(untrusted), copy.deepcopy(trusted), gpg=gpg)
    return out, exc


def fixture_traces(run, owner):
    fn = lib.cct("authentication").verify_delegation
    traces, conc, tid = [], {}, 0
    for d in ("tests/testdata", "demo"):
        docs = {}
        for name in ("1.root.json", "2.root.json", "3.root.json", "key_mgr.json"):
            p = os.path.join(REPO, d, name)
            if os.path.exists(p):
                with open(p, "rb") as f:
                    docs[name] = json.load(f)
        evs, cs = [], []
        for tname, t in docs.items():
            for uname, u in docs.items():
                for role in ("root", "key_mgr", "pkg_mgr"):
                    for gpg in (False, True):
                        out, exc = _exec(fn, role, u, t, gpg)
                        run.evaluations += 1
                        ev = alpha_call(role, u, t, gpg, out)
                        if ev:
                            evs.append(ev)
                            cs.append({"label": f"{d}: {uname} as {role} under {tname} gpg={gpg}", "role": role,
                                       "untrusted": u, "trusted": t, "gpg": gpg, "observed": out, "exc": exc})
        if evs:
            tid += 1
            traces.append({"id": tid, "events": evs})
            conc[tid] = cs
    judge(run, traces, conc, owner, "fixture")


def random_traces(run, n, owner):
    """Histories of related calls: the same signed document presented for several roles, with attacker edits of
    the unsigned part between calls; 6 keys."""
    fn = lib.cct("authentication").verify_delegation
    keys = gamma.Keys(6, run.seed, offset=400)
    r = random.Random(run.seed * 211 + 9)
    traces, conc = [], {}
    for tid in range(1, n + 1):
        roles = ["root", "key_mgr", "pkg_mgr"]
        dels = {}
        for ro in roles:
            if r.random() < 0.8:
                ks = r.sample(range(1, 7), r.randint(0, 4))
                dels[ro] = metadata.rule([keys.pub[k] for k in ks], r.randint(1, 3))
        trusted = {"signatures": {}, "signed": metadata.delegating_doc(r.choice(["root", "key_mgr"]), r.choice([1, 3]), dels, r)}
        if r.random() < 0.5:
            P = metadata.delegating_doc(r.choice(["root", "key_mgr"]), r.choice([1, 2]),
                                        {ro: metadata.rule([keys.pub[k] for k in range(1, 7)], 1) for ro in roles}, r)
            if r.random() < 0.15:
                metadata.apply_signed(P, r.choice([i + 1 for i, m in enumerate(metadata.MALFORMATIONS) if m[1] == "signed"]), r)
        else:
            P, _ = gamma.make_payloads(r)
        Pb = twin_canon(P)
        sigs = {}
        for k in range(1, 7):
            t = r.randrange(8)
            if t <= 2:
                sigs[keys.pub[k]] = {"signature": keys.sign(k, Pb).hex()}
            elif t == 3:
                h = r.choice(gamma.HEADERS)
                sigs[keys.pub[k]] = {"other_headers": h.hex(), "signature": keys.sign(k, crypto.gpg_digest(Pb, h)).hex()}
            elif t == 4:
                sigs[keys.pub[k]] = {"signature": gamma.flip_bit(keys.sign(k, Pb), r).hex()}
        untrusted = {"signatures": sigs, "signed": P}
        evs, cs = [], []
        for step in range(r.randint(1, 4)):
            u = copy.deepcopy(untrusted)
            edit = r.randrange(6)
            if edit == 1:
                u["signatures"][gamma.junk_name(r, nonascii=False, surrogates=False)] = "x"
            elif edit == 2:
                u["signatures"][gamma.junk_name(r, nonascii=False, surrogates=False)] = {"signature": "0" * 128}
            elif edit == 3 and u["signatures"]:
                k0 = sorted(u["signatures"])[0]
                u["signatures"][k0] = {"signature": u["signatures"][k0]["signature"].upper()}
            elif edit == 4:
                u["signatures"]["00" * 32] = {"signature": "11" * 64}
            role = r.choice(roles)
            gpg = r.random() < 0.3
            out, exc = _exec(fn, role, u, trusted, gpg)
            run.evaluations += 1
            ev = alpha_call(role, u, trusted, gpg, out)
            if ev:
                evs.append(ev)
                cs.append({"role": role, "untrusted": u, "trusted": trusted, "gpg": gpg, "observed": out, "exc": exc})
        if evs:
            traces.append({"id": tid, "events": evs})
            conc[tid] = cs
    judge(run, traces, conc, owner, "random")


def aliased_traces(run, n, owner):
    """Object identity between the arguments: the SAME envelope object in both positions (a root checked against its own rules), an
    untrusted envelope wrapped around the trusted metadata's very `signed` object, and documents that share equal parts (key lists, rules).
    The library is called on these objects as they are (no copies); the events are abstracted from their values and judged by
    Trace_Delegation.tla, so the verdict has to be the one the values alone determine."""
    fn = lib.cct("authentication").verify_delegation
    keys = gamma.Keys(4, run.seed, offset=470)
    r = random.Random(run.seed * 223 + 19)
    traces, conc = [], {}
    for tid in range(1, n + 1):
        shared_list = [keys.pub[k] for k in r.sample(range(1, 5), r.randint(1, 3))]
        own_list = [keys.pub[k] for k in r.sample(range(1, 5), r.randint(1, 3))]
        dels = {"root": metadata.rule(shared_list, r.randint(1, 2)), "key_mgr": metadata.rule(r.choice([shared_list, own_list]), 1)}
        if r.random() < 0.5:
            dels["key_mgr"]["pubkeys"] = dels["root"]["pubkeys"] if r.random() < 0.5 else dels["key_mgr"]["pubkeys"]      # one list object in two rules
        if r.random() < 0.4:
            dels["pkg_mgr"] = dels[r.choice(["root", "key_mgr"])]                                                        # one rule object under two roles
        ttype = r.choice(["root", "key_mgr"])
        tdoc = metadata.delegating_doc(ttype, r.choice([1, 4]), dels, r)
        Tb = twin_canon(tdoc)
        gpg = r.random() < 0.4
        signers = r.sample(range(1, 5), r.randint(1, 4))
        hdr = r.choice(gamma.HEADERS)
        sigs = {keys.pub[k]: ({"other_headers": hdr.hex(), "signature": keys.sign(k, crypto.gpg_digest(Tb, hdr)).hex()} if gpg
                              else {"signature": keys.sign(k, Tb).hex()}) for k in signers}
        trusted = {"signatures": dict(sigs), "signed": tdoc}
        mode = r.choice(["same_envelope", "same_signed", "shared_parts"])
        if mode == "same_envelope":
            untrusted = trusted
        elif mode == "same_signed":
            untrusted = {"signatures": dict(sigs), "signed": trusted["signed"]}
        else:
            udoc = copy.deepcopy(tdoc)
            udoc["x-tag"] = "edited copy"
            if r.random() < 0.5:
                udoc["type"] = r.choice(["root", "key_mgr"])
            Ub = twin_canon(udoc)
            usigs = {keys.pub[k]: ({"other_headers": hdr.hex(), "signature": keys.sign(k, crypto.gpg_digest(Ub, hdr)).hex()} if gpg
                                   else {"signature": keys.sign(k, Ub).hex()}) for k in signers}
            untrusted = {"signatures": usigs, "signed": gamma.share_equal_parts(udoc, trusted)}
        evs, cs = [], []
        for role in r.sample(["root", "key_mgr", "pkg_mgr", "nope"], 3):
            snap = twin_canon([untrusted, trusted])
            out, exc, _ = lib.call(fn, role, untrusted, trusted, gpg=gpg)
            run.evaluations += 1
            if twin_canon([untrusted, trusted]) != snap:
                run.violation("verify_delegation modified its (aliased) arguments", {"kind": "verify_delegation", "mode": mode, "role": role})
                break
            ev = alpha_call(role, copy.deepcopy(untrusted), copy.deepcopy(trusted), gpg, out)
            if ev:
                evs.append(ev)
                cs.append({"role": role, "untrusted": copy.deepcopy(untrusted), "trusted": copy.deepcopy(trusted), "gpg": gpg, "observed": out, "exc": exc,
                           "aliasing": mode})
        if evs:
            traces.append({"id": tid, "events": evs})
            conc[tid] = cs
    judge(run, traces, conc, owner, "aliased-arguments")
    run.extra["aliased_argument_traces"] = len(traces)
