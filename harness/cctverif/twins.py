"""Executable twins of pure TLA+ operators (DESIGN 4.4).  Each is cross-checked against its TLA+ operator on
the complete bounded domain before it is relied on (see props/c07.py, c15.py, c10.py).

twin_canon: the published canonical format - UTF-8 of ASCII-escaped JSON, object members sorted by key
(code-point order), two-space indentation, ',' and ': ' separators - written from that description, not
by calling json.dumps.
"""
from __future__ import annotations

import math
import re

_ESC = {0x22: '\\"', 0x5C: "\\\\", 0x0A: "\\n", 0x0D: "\\r", 0x09: "\\t", 0x08: "\\b", 0x0C: "\\f"}


def canon_string(s: str) -> str:
    out = ['"']
    for ch in s:
        o = ord(ch)
        if o in _ESC:
            out.append(_ESC[o])
        elif 0x20 <= o < 0x7F:
            out.append(ch)
        elif o < 0x10000:
            out.append("\\u%04x" % o)
        else:
            o -= 0x10000
            out.append("\\u%04x\\u%04x" % (0xD800 | (o >> 10), 0xDC00 | (o & 0x3FF)))
    out.append('"')
    return "".join(out)


def shortest_float(x: float) -> str:
    """Shortest decimal string that round-trips, laid out by Python's repr rule - found by search over
    precisions 1..17 with '%.{p}e', not by calling repr()."""
    if x != x:
        return "NaN"
    if x in (math.inf, -math.inf):
        return "Infinity" if x > 0 else "-Infinity"
    if x == 0:
        return "-0.0" if math.copysign(1.0, x) < 0 else "0.0"
    for p in range(1, 18):
        s = "%.*e" % (p - 1, x)
        if float(s) == x:
            break
    mant, exp = s.split("e")
    e = int(exp)
    sign = "-" if mant.startswith("-") else ""
    digits = mant.lstrip("-").replace(".", "").rstrip("0") or "0"
    # repr layout: fixed notation for -4 <= e < 16, else exponent notation
    if -4 <= e < 16:
        if e >= 0:
            if len(digits) <= e + 1:
                return sign + digits + "0" * (e + 1 - len(digits)) + ".0"
            return sign + digits[:e + 1] + "." + digits[e + 1:]
        return sign + "0." + "0" * (-e - 1) + digits
    m = digits[0] + ("." + digits[1:] if len(digits) > 1 else "")
    return sign + m + "e" + ("-" if e < 0 else "+") + ("%02d" % abs(e))


def _ser(v, level: int, out: list) -> None:
    if v is None:
        out.append("null")
    elif v is True:
        out.append("true")
    elif v is False:
        out.append("false")
    elif isinstance(v, int):
        out.append(_int_digits(v))
    elif isinstance(v, float):
        out.append(shortest_float(v))
    elif isinstance(v, str):
        out.append(canon_string(v))
    elif isinstance(v, (list, tuple)):
        if not v:
            out.append("[]")
            return
        ind = "  " * (level + 1)
        out.append("[\n")
        for i, x in enumerate(v):
            if i:
                out.append(",\n")
            out.append(ind)
            _ser(x, level + 1, out)
        out.append("\n" + "  " * level + "]")
    elif isinstance(v, dict):
        if not v:
            out.append("{}")
            return
        ind = "  " * (level + 1)
        out.append("{\n")
        for i, k in enumerate(sorted(v, key=lambda s: [ord(c) for c in s])):
            if i:
                out.append(",\n")
            out.append(ind)
            out.append(canon_string(k))
            out.append(": ")
            _ser(v[k], level + 1, out)
        out.append("\n" + "  " * level + "}")
    else:
        raise TypeError(type(v))


def _int_digits(n: int) -> str:
    if n == 0:
        return "0"
    neg, n = n < 0, abs(n)
    ds = []
    # chunked conversion so that 4000-digit integers do not need int.__str__
    base = 10 ** 18
    parts = []
    while n:
        n, r = divmod(n, base)
        parts.append(r)
    ds.append("%d" % parts[-1])
    for r in reversed(parts[:-1]):
        ds.append("%018d" % r)
    return ("-" if neg else "") + "".join(ds)


def twin_canon(v) -> bytes:
    out: list = []
    _ser(v, 0, out)
    return "".join(out).encode("ascii")


# ---------------------------------------------------------------- leaf grammars (C15)
_HEX = re.compile(r"[0-9a-f]*\Z")


def twin_is_hex(s, n: int | None = None) -> bool:
    return isinstance(s, str) and len(s) > 0 and len(s) % 2 == 0 and (n is None or len(s) == n) and bool(_HEX.match(s))


def twin_is_hex_key(s) -> bool:
    return twin_is_hex(s, 64)


def twin_is_hex_sig(s) -> bool:
    return twin_is_hex(s, 128)


def twin_is_fingerprint(s) -> bool:
    return twin_is_hex(s, 40)


def twin_is_gpg_entry(v) -> bool:
    return (isinstance(v, dict) and set(v) in ({"other_headers", "signature"}, {"other_headers", "signature", "see_also"})
            and all(isinstance(k, str) for k in v)
            and twin_is_hex(v["other_headers"])
            and twin_is_hex_sig(v["signature"])
            and ("see_also" not in v or twin_is_fingerprint(v["see_also"])))


def twin_is_raw_entry(v) -> bool:
    return isinstance(v, dict) and set(v) == {"signature"} and twin_is_hex_sig(v["signature"])


def twin_is_any_entry(v) -> bool:
    return twin_is_raw_entry(v) or twin_is_gpg_entry(v)


# ---------------------------------------------------------------- delegating-metadata schema (C14)
ACCEPT, REJECT, UNSPEC = "accept", "reject", "unspecified"
_DATE_CANON = re.compile(r"[0-9]{4}-[0-9]{2}-[0-9]{2}T[0-9]{2}:[0-9]{2}:[0-9]{2}Z\Z")
_DATE_LOOSE = re.compile(r"\d{1,4}-\d{1,2}-\d{1,2}[Tt]\d{1,2}:\d{1,2}:\d{1,2}[Zz]\Z")
SUPPORTED_TYPES = ("root", "key_mgr")


def _and(*vs):
    if REJECT in vs:
        return REJECT
    if UNSPEC in vs:
        return UNSPEC
    return ACCEPT


def twin_natural(x):
    if isinstance(x, bool):
        return UNSPEC
    if isinstance(x, int):
        return ACCEPT if x >= 1 else REJECT
    if isinstance(x, float):
        if x != x or x in (math.inf, -math.inf):
            return REJECT
        return UNSPEC if (x == int(x) and x >= 1) else REJECT
    return REJECT


def twin_date(s):
    if not isinstance(s, str):
        return REJECT
    if _DATE_CANON.match(s):
        y, mo, d, h, mi, se = int(s[0:4]), int(s[5:7]), int(s[8:10]), int(s[11:13]), int(s[14:16]), int(s[17:19])
        dim = [31, 29 if (y % 4 == 0 and (y % 100 != 0 or y % 400 == 0)) else 28, 31, 30, 31, 30, 31, 31, 30, 31, 30, 31]
        if not (1 <= mo <= 12 and 1 <= d <= dim[mo - 1] and h <= 24 and mi <= 59 and se <= 60):
            return REJECT       # canonical spelling of an instant that does not exist (Feb 30, month 13, day 00, 25:00, :60 minutes)
        if y >= 1 and h <= 23 and se <= 59:
            return ACCEPT
        return UNSPEC           # 24:00:00, a leap second, year 0000: conventions differ
    if _DATE_LOOSE.match(s):
        return UNSPEC       # unpadded, lower-case t/z, non-ASCII digits: strptime-tolerated spellings
    return REJECT


def twin_delegation(d):
    if not isinstance(d, dict) or set(d) != {"pubkeys", "threshold"}:
        return REJECT
    pk = d["pubkeys"]
    if not isinstance(pk, list) or not all(twin_is_hex_key(k) for k in pk) or len(set(pk)) != len(pk):
        return REJECT
    return twin_natural(d["threshold"])


def twin_delegations(ds):
    if not isinstance(ds, dict):
        return REJECT
    vs = []
    for k, v in ds.items():
        if not isinstance(k, str):
            return REJECT
        vs.append(twin_delegation(v))
        if k == "":
            vs.append(UNSPEC)
    return _and(*vs)


def twin_signed_part(c):
    """Verdict on the signed portion alone (what C06 binds the type to)."""
    if not isinstance(c, dict):
        return REJECT
    for f in ("type", "metadata_spec_version", "delegations", "expiration"):
        if f not in c:
            return REJECT
    if not isinstance(c["type"], str) or c["type"] not in SUPPORTED_TYPES:
        return REJECT
    if not isinstance(c["metadata_spec_version"], str):
        return REJECT
    vs = [twin_delegations(c["delegations"]), twin_date(c["expiration"])]
    if "timestamp" not in c and "version" not in c:
        return REJECT
    if c["type"] == "root" and "version" not in c:
        return REJECT
    if "timestamp" in c:
        vs.append(twin_date(c["timestamp"]))
    if "version" in c:
        vs.append(twin_natural(c["version"]))
    if not re.match(r"[0-9]+(\.[0-9]+)*\Z", c["metadata_spec_version"]):
        vs.append(UNSPEC)
    return _and(*vs)


def twin_schema(md):
    if not isinstance(md, dict) or set(md) != {"signatures", "signed"} or not isinstance(md["signatures"], dict):
        return REJECT
    if not all(isinstance(k, str) for k in md["signatures"]):
        return REJECT
    if not all(twin_is_any_entry(v) for v in md["signatures"].values()):
        return REJECT
    # names that are not keys but carry well-formed values: the statement speaks of values only -> unspecified
    names = ACCEPT if all(twin_is_hex_key(k) for k in md["signatures"]) else UNSPEC
    return _and(names, twin_signed_part(md["signed"]))
