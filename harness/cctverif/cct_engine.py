"""End-to-end composition (CCT.tla): behaviours of the composed client/repository/adversary model are replayed
through the real API - root metadata -> key_mgr through verify_delegation("key_mgr", ...) -> package metadata
(signed the way sign_all_in_repodata files it, wrapped with wrap_as_signable) through
verify_delegation("pkg_mgr", ...)."""
from __future__ import annotations

import copy
import json
import random

from . import gamma, lib, metadata
from .tlc import MachineryFailure
from .twins import twin_canon


def replay_behaviour(hist, seed, idx):
    r = random.Random(seed * 9176 + idx)
    keys = gamma.Keys(4, seed, offset=1300)
    auth, signing = lib.cct("authentication"), lib.cct("signing")
    root_doc = metadata.delegating_doc("root", r.choice([1, 4]), {"root": metadata.rule([keys.pub[4]], 1),
                                                                   "key_mgr": metadata.rule([keys.pub[1], keys.pub[2]], 1)}, r)
    root = {"signatures": {}, "signed": root_doc}
    km_docs = {}
    pkgs = {"good": {"name": "good", "version": "1.0", "build": "h_0", "depends": ["python"], "size": 1},
            "evil": {"name": "good", "version": "1.0", "build": "h_0", "depends": ["python", "malware"], "size": 2}}
    seen = {}       # key -> raw signature entries made so far (copyable by the attacker)

    def rsign(doc, ks):
        b = twin_canon(doc)
        sigs = {}
        for k in ks:
            e = {"signature": keys.sign(int(k), b).hex()}
            sigs[keys.pub[int(k)]] = e
            seen.setdefault(int(k), []).append((b, e))
        for k, lst in seen.items():      # decoys: genuine signatures by other keys over OTHER content
            others = [e for bb, e in lst if bb != b]
            if keys.pub[k] not in sigs and others and r.random() < 0.5:
                sigs[keys.pub[k]] = copy.deepcopy(r.choice(others))
        return sigs

    def km_doc(c):
        key = (tuple(sorted(c["pk"])), c["pt"], c["tag"])
        if key not in km_docs:
            km_docs[key] = metadata.delegating_doc("key_mgr", 1, {"pkg_mgr": metadata.rule([keys.pub[int(k)] for k in sorted(c["pk"])], c["pt"])},
                                                   r, tag=c["tag"] + str(idx))
        return copy.deepcopy(km_docs[key])
    km_env = None
    bad, n = [], 0
    for i, ev in enumerate(hist):
        if ev["a"] == "offer_km":
            env = {"signatures": rsign(km_doc(ev["content"]), ev["signers"]), "signed": km_doc(ev["content"])}
            out, exc, _ = lib.call(auth.verify_delegation, "key_mgr", env, root)
            n += 1
            if (out == "accept") != ev["accept"]:
                bad.append({"step": i, "why": f"key_mgr offer: observed {out}, specification {'accepts' if ev['accept'] else 'rejects'}", "event": ev, "exc": exc})
            if out == "accept":
                km_env = env
        elif ev["a"] == "offer_pkg":
            md = copy.deepcopy(pkgs[ev["pkg"]])
            env = signing.wrap_as_signable(md)
            env["signatures"] = rsign(md, ev["signers"])
            if km_env is None:
                if ev["has_km"]:
                    bad.append({"step": i, "why": "client state diverged: no key_mgr accepted in the replay", "event": ev})
                continue
            out, exc, _ = lib.call(auth.verify_delegation, "pkg_mgr", env, km_env)
            n += 1
            if (out == "accept") != ev["accept"]:
                bad.append({"step": i, "why": f"package offer ({ev['pkg']}): observed {out}, specification {'accepts' if ev['accept'] else 'rejects'}", "event": ev, "exc": exc})
    return bad, n


def simulate_and_replay(run, num):
    r = run.tlc("CCT", "CCT_sim.cfg", workers=1, simulate=f"num={num}", depth=13, seed=run.seed + 9, timeout=900)
    seen, behaviours = set(), []
    for h in r.cases:
        k = json.dumps(h, sort_keys=True)
        if k not in seen:
            seen.add(k)
            behaviours.append(h)
    if not behaviours:
        raise MachineryFailure("no behaviours from CCT simulation")
    acc = 0
    for idx, h in enumerate(behaviours):
        bad, n = replay_behaviour(h, run.seed, idx)
        run.evaluations += n
        run._distinct.add("cct%d" % idx)
        acc += sum(1 for e in h if e.get("accept"))
        if not bad:
            run.traces_validated += 1
        for b in bad:
            run.violation("end-to-end chain replay: " + b["why"].split(":")[0] + " differs from the specification", {"kind": "cct_behaviour", "behaviour": h, "index": idx, "discrepancy": b})
    run.extra["end_to_end_behaviours"] = len(behaviours)
    run.extra["end_to_end_accepting_steps"] = acc
