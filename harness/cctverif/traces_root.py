"""code -> spec for verify_root: fixture chains and seeded random (trusted, offered) pairs, abstracted by alpha
(schema twin + independent signature oracle) and judged by Trace_Root.tla."""
from __future__ import annotations

import copy
import json
import os
import random

from . import crypto, gamma, lib, metadata
from .core import REPO
from .traces_verify import NK, NA, NJ, oracle_verify, validate
from .twins import ACCEPT, REJECT, twin_canon, twin_is_gpg_entry, twin_is_hex_key, twin_is_raw_entry, twin_schema


class KeyIndex:
    def __init__(self):
        self.idx = {}

    def __call__(self, h):
        if h not in self.idx:
            self.idx[h] = len(self.idx) + 1
        return self.idx[h]


def _numeric_versions(env):
    """The same envelope with an integral-float version replaced by the integer it denotes (exactly)."""
    try:
        v = env["signed"]["version"]
        if isinstance(v, float) and v == v and abs(v) != float("inf") and v == int(v):
            e2 = dict(env, signed=dict(env["signed"], version=int(v)))
            return e2
    except Exception:  # noqa: BLE001
        pass
    return env


def alpha_doc(env, ki, base_ver, numeric=False):
    """Abstract a root-ish envelope; returns None when its well-formedness is Unspecified by the schema.
    numeric=True: versions are abstracted by their numeric value (an integral float counts as that integer), for drivers that only
    ask whether something was ACCEPTED that no reading of the version allows."""
    if numeric:
        env = _numeric_versions(env)
    verdict = twin_schema(env)
    if verdict not in (ACCEPT, REJECT):
        return None
    if verdict == REJECT:
        return {"type": "root", "ver": 1, "rk": [], "rt": 1, "hasroot": True, "wf": "bad"}
    s = env["signed"]
    rr = s["delegations"].get("root")
    dv = s.get("version", 0) - base_ver
    return {"type": s["type"], "ver": 1000 + max(-900, min(900, dv)),
            "rk": sorted(ki(k) for k in rr["pubkeys"]) if rr else [], "rt": min(rr["threshold"], 10 ** 6) if rr else 1,
            "hasroot": rr is not None, "wf": "ok"}


def alpha_entries(env, ki):
    """Entries of the offered envelope, validity judged in OpenPGP mode by the independent oracle."""
    entries, na, nj = [], 0, 0
    if not (isinstance(env, dict) and isinstance(env.get("signatures"), dict) and "signed" in env):
        return entries, 0, 0
    Pb = twin_canon(env["signed"])
    for name, val in env["signatures"].items():
        if twin_is_hex_key(name):
            nm = ["c", ki(name)]
        else:
            nj += 1
            nm = ["junk", nj]
        shape = "raw" if twin_is_raw_entry(val) else ("gpgfp" if twin_is_gpg_entry(val) and "see_also" in val
                                                       else "gpg" if twin_is_gpg_entry(val) else "bad")
        v = [shape, "none", "-", "-", False]
        if nm[0] == "c" and shape != "bad":
            if oracle_verify(name, Pb, val["signature"]):
                v = [shape, "self", "P", "raw", True]
            elif "other_headers" in val and oracle_verify(
                    name, crypto.gpg_digest(Pb, bytes.fromhex(val["other_headers"])), val["signature"]):
                v = [shape, "self", "P", "gpg", True]
        entries.append({"name": nm, "v": v})
    return entries, na, nj


def alpha_call(trusted, offered, outcome, numeric=False):
    ki = KeyIndex()
    base = 0
    try:
        base = (_numeric_versions(trusted) if numeric else trusted)["signed"]["version"]
        if not isinstance(base, int) or isinstance(base, bool):
            base = 0
    except Exception:  # noqa: BLE001
        base = 0
    t = alpha_doc(trusted, ki, base, numeric)
    n = alpha_doc(offered, ki, base, numeric)
    if t is None or n is None:
        return None
    entries, na, nj = alpha_entries(offered, ki) if n["wf"] == "ok" else ([], 0, 0)
    from .traces_verify import LIMITS
    if len(ki.idx) > LIMITS["NK"] or nj > LIMITS["NJ"]:
        return None
    return {"api": "verify_root", "t": t, "n": n, "entries": entries, "outcome": lib.family(outcome)}


def judge(run, traces, conc, owner, label, cfg="Trace_Root.cfg"):
    if not traces:
        return
    seen = validate(run, traces, cfg=cfg, module="Trace_Root")
    for t in traces:
        rejected = False
        for i, ev in enumerate(t["events"], 1):
            line = seen[(t["id"], i)]
            if not line["ok"]:
                rejected = True
                o = {"observed": ev["outcome"], "allowed": line["allowed"]}
                if owner(o):
                    run.violation(f"{label} verify_root allowed={'|'.join(sorted(line['allowed']))} observed={ev['outcome']} "
                                  f"dver={ev['n']['ver'] - ev['t']['ver']} wf={ev['t']['wf']}/{ev['n']['wf']}",
                                  {"kind": "verify_root", "concrete": conc[t["id"]][i - 1], "allowed": line["allowed"],
                                   "event": ev, "trace_id": t["id"], "event_index": i})
                else:
                    run.note_drift(f"{label}: event outside Allowed owned by another property: observed={ev['outcome']}")
            elif line["predicted"] != ev["outcome"]:
                run.note_drift(f"{label}: implementation-layer prediction {line['predicted']} vs observed {ev['outcome']}")
        if not rejected:
            run.traces_validated += 1
    run.sample({label: traces[0]})


def fixture_chain(run, owner):
    """The shipped 1 -> 2 -> 3 root chains (and the pairs that must be rejected: skips, replays, rollbacks)."""
    fn = lib.cct("authentication").verify_root
    traces, conc = [], {}
    tid = 0
    for d in ("tests/testdata", "demo"):
        roots = {}
        for n in (1, 2, 3):
            p = os.path.join(REPO, d, f"{n}.root.json")
            if os.path.exists(p):
                with open(p, "rb") as f:
                    roots[n] = json.load(f)
        km = os.path.join(REPO, d, "key_mgr.json")
        others = {}
        if os.path.exists(km):
            with open(km, "rb") as f:
                others["key_mgr"] = json.load(f)
        docs = {**{str(k): v for k, v in roots.items()}, **others}
        evs, cs = [], []
        for a in docs:
            for b in docs:
                out, exc, _ = lib.call(fn, copy.deepcopy(docs[a]), copy.deepcopy(docs[b]))
                ev = alpha_call(docs[a], docs[b], out)
                run.evaluations += 1
                if ev:
                    evs.append(ev)
                    cs.append({"label": f"{d}: {a} -> {b}", "trusted": docs[a], "offered": docs[b], "observed": out, "exc": exc})
        if evs:
            tid += 1
            traces.append({"id": tid, "events": evs})
            conc[tid] = cs
    judge(run, traces, conc, owner, "fixture-chain")
    run.extra["fixture_chain_pairs"] = sum(len(t["events"]) for t in traces)


def random_pairs(run, n, owner):
    """Random (trusted, offered) pairs over 5 keys, built independently of the TLC enumeration."""
    fn = lib.cct("authentication").verify_root
    keys = gamma.Keys(5, run.seed, offset=300)
    r = random.Random(run.seed * 101 + 3)
    traces, conc = [], {}
    for tid in range(1, n + 1):
        tv = r.choice([1, 2, 7, 2 ** 40])
        trk = r.sample(range(1, 6), r.randint(0, 4))
        trt = r.randint(1, 3)
        nrk = r.sample(range(1, 6), r.randint(0, 4)) if r.random() < .7 else list(trk)
        nrt = r.randint(1, 3)
        nv = tv + r.choice([1, 1, 1, 1, 0, 2, -1])
        tdoc = metadata.delegating_doc("root", tv, {"root": metadata.rule([keys.pub[k] for k in trk], trt),
                                                     "key_mgr": metadata.rule([keys.pub[1]], 1)}, r)
        ntype = "root" if r.random() < .9 else "key_mgr"
        ndoc = metadata.delegating_doc(ntype, nv, {"root": metadata.rule([keys.pub[k] for k in nrk], nrt),
                                                    "key_mgr": metadata.rule([keys.pub[2]], 1)}, r)
        if r.random() < 0.05:
            ndoc["delegations"].pop("root")
        wfc = r.randint(1, metadata.NWF) if r.random() < 0.1 else 0
        metadata.apply_signed(ndoc, wfc, r)
        Pb = twin_canon(ndoc)
        sigs = {}
        signers = [k for k in range(1, 6) if r.random() < 0.6]
        for k in signers:
            hdr = r.choice(gamma.HEADERS)
            t = r.randrange(10)
            if t <= 6:
                sigs[keys.pub[k]] = {"other_headers": hdr.hex(), "signature": keys.sign(k, crypto.gpg_digest(Pb, hdr)).hex()}
            elif t == 7:
                sigs[keys.pub[k]] = {"signature": keys.sign(k, Pb).hex()}
            elif t == 8:
                sigs[keys.pub[k]] = {"other_headers": hdr.hex(), "signature": keys.sign(k, crypto.gpg_digest(twin_canon(tdoc), hdr)).hex()}
            else:
                sigs[keys.pub[k]] = {"other_headers": hdr.hex(), "signature": gamma.flip_bit(keys.sign(k, crypto.gpg_digest(Pb, hdr)), r).hex()}
        if r.random() < .2:
            sigs[gamma.junk_name(r)] = {"signature": "0" * 128}
        offered = {"signatures": sigs, "signed": ndoc}
        metadata.apply_envelope(offered, wfc, r)
        trusted = {"signatures": {}, "signed": tdoc}
        out, exc, _ = lib.call(fn, copy.deepcopy(trusted), copy.deepcopy(offered))
        run.evaluations += 1
        ev = alpha_call(trusted, offered, out)
        if ev:
            traces.append({"id": tid, "events": [ev]})
            conc[tid] = [{"trusted": trusted, "offered": offered, "observed": out, "exc": exc}]
    judge(run, traces, conc, owner, "random-pair")


def big_pairs(run, n, owner):
    """Scale: root rules with up to 120 keys and thresholds up to the number of keys, hundreds of foreign entries;
    signer sets exactly at and just below both thresholds.  Judged by Trace_Root.tla with NK = 160."""
    from . import traces_verify
    fn = lib.cct("authentication").verify_root
    keys = gamma.Keys(150, run.seed, offset=2000)
    r = random.Random(run.seed * 59 + 31)
    traces, conc = [], {}
    traces_verify.LIMITS.update(traces_verify.BIG)
    try:
        for tid in range(1, n + 1):
            nt, nn = r.choice([3, 40, 64, 65, 120]), r.choice([3, 40, 64, 65, 120])
            pool = list(range(1, 151))
            tk = r.sample(pool, nt)
            rest = [k for k in pool if k not in tk]
            keep = min(len(tk), max(nn // 2, nn - len(rest)))          # how many of the old keys stay (enough for the rest of the pool to fill up)
            nk_ = r.sample(tk, keep) + r.sample(rest, nn - keep)
            tt, tn = r.choice([1, nt // 2 + 1, nt]), r.choice([1, nn // 2 + 1, nn])
            tv = r.choice([1, 7, 2 ** 40])
            tdoc = metadata.delegating_doc("root", tv, {"root": metadata.rule([keys.pub[k] for k in tk], tt), "key_mgr": metadata.rule([keys.pub[1]], 1)}, r)
            ndoc = metadata.delegating_doc("root", tv + 1, {"root": metadata.rule([keys.pub[k] for k in nk_], tn), "key_mgr": metadata.rule([keys.pub[2]], 1)}, r)
            Pb = twin_canon(ndoc)
            for short_old, short_new in ((0, 0), (1, 0), (0, 1)):
                need_old = set(r.sample(tk, max(0, tt - short_old)))
                need_new = set(r.sample(nk_, max(0, tn - short_new)))
                # signers: exactly the needed ones, removing overlap effects by recomputing what the spec will compute anyway
                signers = need_old | need_new
                if short_old:
                    signers -= set(list((signers & set(tk)))[: max(0, len(signers & set(tk)) - (tt - 1))])
                if short_new:
                    signers -= set(list((signers & set(nk_)))[: max(0, len(signers & set(nk_)) - (tn - 1))])
                sigs = {}
                for k in signers:
                    h = r.choice(gamma.HEADERS)
                    sigs[keys.pub[k]] = {"other_headers": h.hex(), "signature": keys.sign(k, crypto.gpg_digest(Pb, h)).hex()}
                for j in range(r.choice([0, 50, 300])):
                    sigs["%064x" % (j + 1)] = {"signature": "0" * 128}        # foreign, well-formed entries under unknown keys
                items = list(sigs.items())
                r.shuffle(items)
                offered = {"signatures": dict(items), "signed": ndoc}
                trusted = {"signatures": {}, "signed": tdoc}
                out, exc, _ = lib.call(fn, copy.deepcopy(trusted), copy.deepcopy(offered))
                run.evaluations += 1
                ev = alpha_call(trusted, offered, out)
                if ev and len(ev["entries"]) <= 460:
                    traces.append({"id": len(traces) + 1, "events": [ev]})
                    conc[len(traces)] = [{"note": f"trusted rule {tt} of {nt}, offered rule {tn} of {nn}, {len(signers)} signers, {len(sigs)} entries", "observed": out, "exc": exc}]
    finally:
        traces_verify.LIMITS.update({"NK": traces_verify.NK, "NA": traces_verify.NA, "NJ": traces_verify.NJ})
    # foreign hex keys get key indices too: keep within NK = 160 by dropping traces that exceed it (alpha_call already did)
    judge(run, traces, conc, owner, "large-root-pair", cfg="Trace_Root_big.cfg")
    run.extra["big_root_pairs"] = len(traces)


def float_version_pairs(run, n, owner):
    """Rare values: versions given as integral floats around and beyond 2^53 (where float arithmetic stops being exact), mixed with
    integers.  Versions are abstracted by their exact numeric value; float versions are an unspecified class of the schema, so only an
    ACCEPTANCE that the numeric reading forbids (anything but +1) is reported."""
    fn = lib.cct("authentication").verify_root
    keys = gamma.Keys(3, run.seed, offset=2600)
    r = random.Random(run.seed * 61 + 37)
    traces, conc = [], {}
    pub = keys.pub
    bases = [2 ** 53, 2 ** 53 + 2, 2 ** 53 + 4, 2 ** 54, 2 ** 54 + 4, 2 ** 60, 2 ** 63, 2 ** 64, 10 ** 22, 4, 2 ** 31]
    for tid in range(1, n + 1):
        b = bases[(tid - 1) % len(bases)]
        delta = r.choice([0, 2, -2, 4, 3, -1, 1])
        tv, ov = b, b + delta
        tkind, okind = r.choice(["int", "float"]), r.choice(["float", "float", "int"])
        tvv = float(tv) if tkind == "float" else tv
        ovv = float(ov) if okind == "float" else ov
        if int(tvv) != tv or int(ovv) != ov or (tkind == "int" and okind == "int"):
            continue                       # not exactly representable (or nothing float about it)
        tdoc = metadata.delegating_doc("root", tvv, {"root": metadata.rule([pub[1], pub[2]], 1), "key_mgr": metadata.rule([pub[3]], 1)}, r)
        ndoc = metadata.delegating_doc("root", ovv, {"root": metadata.rule([pub[1], pub[3]], 1), "key_mgr": metadata.rule([pub[3]], 1)}, r)
        Pb = twin_canon(ndoc)
        sigs = {}
        for k in (1, 2, 3):
            h = r.choice(gamma.HEADERS)
            sigs[pub[k]] = {"other_headers": h.hex(), "signature": keys.sign(k, crypto.gpg_digest(Pb, h)).hex()}
        trusted, offered = {"signatures": {}, "signed": tdoc}, {"signatures": sigs, "signed": ndoc}
        out, exc, _ = lib.call(fn, copy.deepcopy(trusted), copy.deepcopy(offered))
        run.evaluations += 1
        ev = alpha_call(trusted, offered, out, numeric=True)
        if ev:
            traces.append({"id": len(traces) + 1, "events": [ev]})
            conc[len(traces)] = [{"trusted": trusted, "offered": offered, "note": f"trusted version {tvv!r}, offered version {ovv!r} (numerically {delta:+d})",
                                  "observed": out, "exc": exc}]
    judge(run, traces, conc, lambda o: o["observed"] == "accept" and "accept" not in o["allowed"] and owner(o), "float-version-pair")
    run.extra["float_version_pairs"] = len(traces)
