"""Replay of Delegation.tla's enumerated calls into authentication.verify_delegation."""
from __future__ import annotations

import copy
import hashlib
import json
import multiprocessing as mp

from . import gamma, lib, metadata
from . import verify_engine as ve
from .tlc import decode_case_line
from .twins import twin_canon

ENV_MALFORMATIONS = [
    ("signatures_list", lambda e: e.__setitem__("signatures", [])),
    ("signatures_null", lambda e: e.__setitem__("signatures", None)),
    ("extra_top_level", lambda e: e.__setitem__("extra", 1)),
    ("missing_signatures", lambda e: e.pop("signatures")),
    ("missing_signed", lambda e: e.pop("signed")),
    ("not_a_dict", None),
]
NENVWF = len(ENV_MALFORMATIONS)
ROLE_SPELLINGS = {"root": ["root"], "key_mgr": ["key_mgr"],
                  "pkg_mgr": ["pkg_mgr", "channeler", "root.json", "Root", "key_mgr ", "ключ",
                              # names that are PARTS of the two metadata types, or contain them: a role is its whole name
                              "key", "mgr", "_", "oot", "roo", "r", "key_mg", "ey_mgr", "key_mgr2", "xroot", "root_key_mgr",
                              # names with a canonically equivalent twin (composed / decomposed); the twin is what the trusted side delegates
                              "caf\u00e9", "cafe\u0301", "\u212bngstr\u00f6m", "\u00c5ngstro\u0308m"]}
STDOUT_ENCODINGS = ["utf-8"] * 10 + ["ascii", "ascii", "ascii", "latin-1", "latin-1", "cp1252", "cp1252", "cp437", "cp437"] + lib.BROKEN_STDOUTS
NFC_TWINS = {"caf\u00e9": "cafe\u0301", "cafe\u0301": "caf\u00e9", "\u212bngstr\u00f6m": "\u00c5ngstro\u0308m", "\u00c5ngstro\u0308m": "\u212bngstr\u00f6m"}
BAD_ROLE_ARGS = [5, None, b"root", ["root"], ("key_mgr",), 1.5]
BAD_GPG_ARGS = ["yes", None, 2, [], "True", -1]
SIGNED_MALFORMATIONS = [i + 1 for i, m in enumerate(metadata.MALFORMATIONS) if m[1] == "signed"]


def concretise(case, r, seed):
    nk = len(case["e"])
    keys = ve._keys(nk, seed)
    allkeys = [keys.pub[k] for k in range(1, nk + 1)]
    metadata.SHADOW_POOL = list(allkeys)
    role = r.choice(ROLE_SPELLINGS[case["role"]])
    others = [x for x in ("root", "key_mgr", "pkg_mgr", "channeler") if x != role]
    # trusted side
    dels = {}
    if case["trule"]["thr"] != 0:
        ks = [keys.pub[int(k)] for k in case["trule"]["keys"]]
        r.shuffle(ks)
        dels[role] = metadata.rule(ks, case["trule"]["thr"])
    if case["drule"]:
        for o in others[: r.randint(1, 3)]:
            dels[o] = metadata.rule(list(allkeys), 1)
    if r.random() < 0.25:
        dels.update({k: v for k, v in metadata.unusual_roles(r, allkeys[0]).items() if k != role})
    if role in NFC_TWINS:
        # the trusted metadata delegates the OTHER canonically-equivalent spelling of this name to every key: a different name, a different role
        dels[NFC_TWINS[role]] = metadata.rule(list(allkeys), 1)
    pad = r.random() < 0.004       # scale: now and then well over a thousand further (well-formed) delegations on either side
    if pad:
        for i in range(r.choice([1021, 1100, 1500])):
            dels["zz-pad-%04d" % i] = metadata.rule([], 1) if i % 3 else metadata.rule([allkeys[i % nk]], 1 + i % 2)
    ttype = r.choice(["root", "key_mgr"])
    tdoc = metadata.delegating_doc(ttype, r.choice([1, 7, 2 ** 40]), dels, r, tag="trusted")
    metadata.apply_signed(tdoc, case["twf"], r)
    trusted = {"signatures": {}, "signed": tdoc}
    if r.random() < 0.3:
        trusted["signatures"][allkeys[0]] = {"signature": keys.sign(1, b"irrelevant").hex()}
    metadata.apply_envelope(trusted, case["twf"], r)
    # untrusted side
    if case["ukind"] == "plain":
        P, _ = gamma.make_payloads(r)
    else:
        udels = {role: metadata.rule(list(allkeys), 1), "x-decoy": metadata.rule(list(allkeys), 1)}
        if pad or r.random() < 0.004:
            for i in range(r.choice([1021, 1100, 1500])):
                udels["zz-pad-%04d" % i] = metadata.rule([], 1)
        if r.random() < 0.3:
            udels.update(metadata.unusual_roles(r, allkeys[-1]))
        ver = r.choice([1, 2, 99]) if (case["utype"] == "root" or r.random() < .7) else None
        P = metadata.delegating_doc(case["utype"], ver, udels, r, tag="untrusted")
        if case["ukind"] == "delegish":
            metadata.apply_signed(P, r.choice(SIGNED_MALFORMATIONS), r)
    Pb = twin_canon(P)
    Q = {"other": P}
    Qb = twin_canon(Q)
    sigs = gamma.build_sigmap(case, keys, Pb, Qb, r)
    untrusted = {"signatures": sigs, "signed": P}
    gamma.prime_related(case, keys, sigs, Q)
    if case["uenv"]:
        name, fn = ENV_MALFORMATIONS[case["uenv"] - 1]
        if fn is None:
            untrusted = [untrusted]
        else:
            fn(untrusted)
    if r.random() < 0.3 and isinstance(untrusted, dict) and isinstance(untrusted.get("signed"), (dict, list)):
        untrusted["signed"] = gamma.share_equal_parts(untrusted["signed"], trusted, r, 0.8)      # aliasing between the two arguments
    role_arg = role if case["argbad"] != "role" else r.choice(BAD_ROLE_ARGS)
    gpg_arg = case["gpg"] if case["argbad"] != "gpg" else r.choice(BAD_GPG_ARGS)
    return role_arg, untrusted, trusted, gpg_arg


def run_one(case, r, seed, variant="main"):
    role, untrusted, trusted, gpg = concretise(case, r, seed)
    snap = copy.deepcopy((untrusted, trusted))
    # verdicts must not depend on what the process's stdout can encode
    enc = r.choice(STDOUT_ENCODINGS)
    out, exc, printed = lib.call(lib.cct("authentication").verify_delegation, role, untrusted, trusted, gpg=gpg, encoding=enc)
    try:
        mutated = twin_canon(untrusted) != twin_canon(snap[0]) or twin_canon(trusted) != twin_canon(snap[1])
    except TypeError:
        mutated = repr(untrusted) != repr(snap[0]) or repr(trusted) != repr(snap[1])
    return {"variant": variant, "observed": out, "exc": exc, "allowed": case["allowed"], "mutated": mutated, "stdout_encoding": enc,
            "unjudged": enc.startswith("broken:") and out != "accept",      # with a dead stdout only a wrongful acceptance is judged
            "concrete": {"role": role if isinstance(role, (str, int, float, type(None), list)) else repr(role),
                         "untrusted": snap[0], "trusted": snap[1],
                         "gpg": gpg if isinstance(gpg, (bool, str, int, type(None), list)) else repr(gpg)},
            "case": case}


def run_stripped(case, r, seed):
    c2 = dict(case)
    keep = set(int(k) for k in case["signers"])
    c2["e"] = [v if i in keep else ["absent", "none", "-", "-", False] for i, v in enumerate(case["e"], 1)]
    c2["alt"] = c2["junk"] = ["absent", "none", "-", "-", False]
    c2["allowed"] = case["allowed_stripped"]
    o = run_one(c2, r, seed, variant="stripped")
    o["case"] = case
    return o


def _work(args):
    lines, seed, opts = args
    res = {"n": 0, "bad": [], "samples": [], "hashes": [], "accepts": 0}
    for line in lines:
        case = decode_case_line(line)
        r = ve._rng(seed, line)
        obs = [run_one(case, r, seed)]
        if opts.get("strip") and (case["allowed"] == ["accept"] or obs[0]["observed"] == "accept"):      # every ACCEPTED envelope is presented again, stripped to its valid authorized signatures
            obs.append(run_stripped(case, r, seed))
        for o in obs:
            res["n"] += 1
            res["accepts"] += o["observed"] == "accept"
            if o.get("unjudged"):
                continue
            if o["variant"] == "stripped" and obs[0]["observed"] == "accept" and o["observed"] != "accept":
                o["strip_mismatch"] = True      # accepted, but not when reduced to its valid signatures by authorized keys: something else made it pass
                res["bad"].append(o)
            elif lib.family(o["observed"]) not in o["allowed"] or o.get("mutated"):
                res["bad"].append(o)
        trivial = all(v[0] == "absent" for v in case["e"]) and case["alt"][0] == "absent" and case["junk"][0] == "absent"
        res["hashes"].append((hashlib.sha256(line.encode()).hexdigest()[:16], not trivial))
        if not res["samples"]:
            res["samples"].append({"abstract": case, "concrete": obs[0]["concrete"], "observed": obs[0]["observed"]})
    return res


def replay(run, tlc_result, opts=None, procs=16):
    opts = opts or {}
    bad = []
    lib.cct("authentication")
    accepts = 0
    with mp.get_context("fork").Pool(procs) as pool:
        it = ((b, run.seed, opts) for b in ve.batches(tlc_result.case_file, every=opts.get("every", 1)))
        for res in pool.imap_unordered(_work, it):
            run.evaluations += res["n"]
            accepts += res["accepts"]
            for h, nt in res["hashes"]:
                if nt:
                    run._distinct.add(h)
            bad.extend(res["bad"])
            for s in res["samples"]:
                run.sample(s)
    run.extra["accepting_executions"] = run.extra.get("accepting_executions", 0) + accepts
    run.traces_validated += max(0, tlc_result.ncases - len({json.dumps(o["case"], sort_keys=True) for o in bad}))
    return bad


def coarse_sig(o):
    if o.get("strip_mismatch"):
        return _coarse_sig({**o, "strip_mismatch": False}) + " - although the envelope as presented was ACCEPTED"
    return _coarse_sig(o)


def _coarse_sig(o):
    c = o["case"]
    bits = [f"role={c['role']}", f"untrusted={c['ukind']}" + (":" + c["utype"] if c["ukind"] != "plain" else ""),
            f"gpg={c['gpg']}"]
    if c["argbad"] != "none":
        bits.append("bad-arg:" + c["argbad"])
    if c["twf"]:
        bits.append("trusted:" + metadata.wf_name(c["twf"]))
    if c["uenv"]:
        bits.append("untrusted-envelope:" + ENV_MALFORMATIONS[c["uenv"] - 1][0])
    if c["unknown"]:
        bits.append("role-not-delegated")
    if c["mismatch"]:
        bits.append("type-mismatch")
    if c["argsok"] and not c["unknown"]:
        bits.append("rule_met" if c["meets"] else "rule_unmet")
    junk = [n for n in ("alt", "junk") if c[n][0] != "absent"] + (["malformed-entry"] if any(v[0] == "bad" for v in c["e"]) else [])
    if junk:
        bits.append("unsigned-part:" + "+".join(junk))
    return f"verify_delegation[{o['variant']}] {' '.join(bits)} allowed={'|'.join(sorted(o['allowed']))} observed={o['observed']}"
