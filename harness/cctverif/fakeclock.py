"""A settable, optionally ticking clock: every way of reading the time (datetime.utcnow/now/today, date.today, time.time/time_ns/gmtime/
localtime) is frozen at a chosen UTC instant, in this process - also for library modules imported before (`from datetime import datetime`).
`tick` seconds are added after every read, so that two reads inside one library call see different instants.

Child processes: put the directory `fakeclock_site/` (next to this file) on PYTHONPATH and set CCTVERIF_FAKE_NOW=<epoch seconds>[:<tick>];
its sitecustomize installs the clock before anything else is imported."""
from __future__ import annotations

import datetime


class FakeClock:
    """Freezes every way of reading the clock (datetime.utcnow/now/today, date.today, time.time/time_ns/gmtime/localtime) at a settable UTC
    instant, in this process, also for library modules that were imported before (`from datetime import datetime`)."""

    def __init__(self, tick=0.0):
        import sys
        import time as _time
        self.real_dt, self.real_date, self._time = datetime.datetime, datetime.date, _time
        self.saved_time = {n: getattr(_time, n) for n in ("time", "time_ns", "gmtime", "localtime")}
        self._epoch = 0.0
        self.tick = tick
        self.reads = 0
        clock = self

        class FakeDT(self.real_dt):
            @classmethod
            def utcnow(cls):
                return cls.utcfromtimestamp(clock.epoch)

            @classmethod
            def now(cls, tz=None):
                return cls.fromtimestamp(clock.epoch, tz)

            @classmethod
            def today(cls):
                return cls.fromtimestamp(clock.epoch)

        class FakeDate(self.real_date):
            @classmethod
            def today(cls):
                return cls.fromtimestamp(clock.epoch)
        self.FakeDT, self.FakeDate = FakeDT, FakeDate
        self.patched = []
        datetime.datetime, datetime.date = FakeDT, FakeDate
        fakes = {"time": lambda: float(clock.epoch), "time_ns": lambda: int(clock.epoch * 10 ** 9),
                 "gmtime": lambda s=None: clock.saved_time["gmtime"](clock.epoch if s is None else s),
                 "localtime": lambda s=None: clock.saved_time["localtime"](clock.epoch if s is None else s)}
        replace = {id(self.real_dt): FakeDT, id(self.real_date): FakeDate}
        for n, f in self.saved_time.items():
            replace[id(f)] = fakes[n]
            setattr(_time, n, fakes[n])
        # names bound earlier in library modules (`from datetime import datetime`, `from time import time`)
        for name, mod in list(sys.modules.items()):
            if name.startswith("conda_content_trust") and mod is not None:
                for attr, val in list(vars(mod).items()):
                    if id(val) in replace and not attr.startswith("__"):
                        setattr(mod, attr, replace[id(val)])
                        self.patched.append((mod, attr, val))

    @property
    def epoch(self):
        """one read of the clock"""
        v = self._epoch
        self._epoch += self.tick
        self.reads += 1
        return v

    def set(self, y, m, d, sec):
        import calendar
        self._epoch = float(calendar.timegm((y, m, d, 0, 0, 0)) + sec)

    def set_epoch(self, e, tick=None):
        self._epoch = float(e)
        if tick is not None:
            self.tick = tick

    def close(self):
        datetime.datetime, datetime.date = self.real_dt, self.real_date
        for mod, attr, real in self.patched:
            setattr(mod, attr, real)
        for n, f in self.saved_time.items():
            setattr(self._time, n, f)


