"""Replay of Verify.tla's enumerated cases into authentication.verify_signable (spec -> code).

TLC enumerates every abstract call and prints, per initial state, the abstract input together with the
requirement layer's verdict (`allowed`, `signers`).  Workers concretise each case (gamma), execute the
real function and report every observation whose outcome class is outside `allowed`.  Which property
owns a discrepancy is decided by the caller's predicate (DESIGN section 5)."""
from __future__ import annotations

import hashlib
import json
import itertools
import multiprocessing as mp
import random

from . import gamma, lib
from .tlc import decode_case_line
from .twins import twin_canon


def _rng(seed, line):
    return random.Random(int.from_bytes(hashlib.sha256(b"%d|" % seed + line.encode()).digest()[:8], "big"))


_KEYS = {}


def _keys(nk, seed):
    if (nk, seed) not in _KEYS:
        _KEYS[(nk, seed)] = gamma.Keys(nk, seed, related=True)      # keys 1, 2 (and 3, 4) coincide in 32 bits of their public value
    return _KEYS[(nk, seed)]


def run_one(case, r, seed, encoding="utf-8", variant="main"):
    """Concretise and execute one abstract verify_signable call; returns observation dict."""
    auth_mod = lib.cct("authentication")
    nk = len(case["e"])
    keys = _keys(nk, seed)
    P, Q = gamma.make_payloads(r)
    Pb, Qb = twin_canon(P), twin_canon(Q)
    nonascii = True
    surrogates = True
    if variant == "printable":       # junk restricted to what the configured stdout can encode
        surrogates = False
        nonascii = (encoding or "ascii").lower().replace("-", "") == "utf8"
    names = {}
    sigs = gamma.build_sigmap(case, keys, Pb, Qb, r, nonascii=nonascii, surrogates=surrogates, names_out=names)
    env = {"signatures": sigs, "signed": P}
    auth = gamma.auth_list(case["auth"], keys, r, dups=True)
    if case.get("authalt"):
        auth.insert(r.randrange(len(auth) + 1), names["alt"])       # the same alternative spelling in the authorized list
    gamma.prime_related(case, keys, sigs, Q)
    before = (twin_canon(env), list(auth), [id(x) for x in env["signatures"].values()])
    t = case["thr"]
    thr = {"int": t, "plus_half": r.choice([t + 0.5, t + 0.999, t + 1e-9]), "minus_half": t - 0.5, "zero": r.choice([0, 0.0, -0.0]), "neg": r.choice([-t, -t - 0.5]),
           "str": str(t), "null": None, "list": [t]}[case.get("tk", "int")]
    out, exc, printed = lib.call(auth_mod.verify_signable, env, auth, thr, gpg=case["gpg"], encoding=encoding)
    mutated = (twin_canon(env), list(auth), [id(x) for x in env["signatures"].values()]) != before
    return {"variant": variant, "encoding": encoding, "observed": out, "exc": exc, "allowed": case["allowed"], "mutated": mutated,
            "concrete": {"envelope": env, "authorized": auth, "threshold": thr, "gpg": case["gpg"]},
            "case": case}


def run_stripped(case, r, seed):
    """The same call on Strip(envelope): only the valid signatures by authorized keys are kept."""
    c2 = dict(case)
    signers = set(int(k) for k in case["signers"])
    e = case["e"]
    c2["e"] = [v if (i in signers) else ["absent", "none", "-", "-", False] for i, v in enumerate(e, 1)]
    c2["alt"] = ["absent", "none", "-", "-", False]
    c2["junk"] = ["absent", "none", "-", "-", False]
    o = run_one(c2, r, seed, variant="stripped")
    o["case"] = case
    return o


def _work(args):
    lines, seed, opts = args
    res = {"n": 0, "bad": [], "samples": [], "hashes": [], "accepts": 0}
    for line in lines:
        case = decode_case_line(line)
        r = _rng(seed, line)
        if case.get("out") == "dead":
            obs = [run_one(case, r, seed, encoding=r.choice(lib.BROKEN_STDOUTS), variant="dead-stream")]
            if obs[0]["observed"].startswith("internal:") and obs[0]["observed"].split(":")[1] in ("BrokenPipeError", "OSError"):
                obs[0]["observed"] = "OSError"
        else:
            obs = [run_one(case, r, seed)]
        if opts.get("strip") and (case["allowed"] == ["accept"] or obs[0]["observed"] == "accept"):      # every ACCEPTED envelope is presented again, stripped to its valid authorized signatures
            obs.append(run_stripped(case, r, seed))
        if opts.get("encodings"):
            for enc in opts["encodings"]:
                obs.append(run_one(case, r, seed, encoding=enc, variant="enc"))
        if opts.get("printable"):
            for enc in ("utf-8", "ascii"):
                obs.append(run_one(case, r, seed, encoding=enc, variant="printable"))
        if opts.get("broken_stdout") and r.random() < opts["broken_stdout"]:
            # a stdout on which every write fails (reader gone, disk full): whatever else happens, nothing may be ACCEPTED that is not allowed
            o = run_one(case, r, seed, encoding=r.choice(lib.BROKEN_STDOUTS), variant="broken-stdout")
            o["unjudged"] = o["observed"] != "accept"
            obs.append(o)
        for o in obs:
            res["n"] += 1
            if o["observed"] == "accept":
                res["accepts"] += 1
            if o.get("unjudged"):
                continue
            if o["variant"] == "stripped" and obs[0]["observed"] == "accept" and o["observed"] != "accept":
                o["strip_mismatch"] = True      # accepted, but not when reduced to its valid signatures by authorized keys: something else made it pass
                res["bad"].append(o)
            elif lib.family(o["observed"]) not in o["allowed"] or o.get("mutated"):
                res["bad"].append(o)
        trivial = all(v[0] == "absent" for v in case["e"]) and case["alt"][0] == "absent" and case["junk"][0] == "absent"
        res["hashes"].append((hashlib.sha256(line.encode()).hexdigest()[:16], not trivial))
        if len(res["samples"]) < 1:
            res["samples"].append({"abstract": case, "concrete": obs[0]["concrete"], "observed": obs[0]["observed"]})
    return res


def batches(path, n=500, every=1):
    with open(path) as f:
        i = 0
        while True:
            chunk = list(itertools.islice(f, n))
            if not chunk:
                return
            i += 1
            if i % every == 0:
                yield chunk


def replay(run, tlc_result, opts=None, procs=16):
    """Stream TLC's case file through a pool; returns list of discrepancy observations."""
    opts = opts or {}
    every = opts.get("every", 1)
    bad = []
    ctx = mp.get_context("fork")
    lib.cct("authentication")  # import (and path-assert) before forking
    accepts = 0
    with ctx.Pool(procs) as pool:
        it = ((b, run.seed, opts) for b in batches(tlc_result.case_file, every=every))
        for res in pool.imap_unordered(_work, it):
            run.evaluations += res["n"]
            accepts += res["accepts"]
            for h, nt in res["hashes"]:
                if nt:
                    run._distinct.add(h)
            bad.extend(res["bad"])
            for s in res["samples"]:
                run.sample(s)
    run.extra["accepting_executions"] = run.extra.get("accepting_executions", 0) + accepts
    run.traces_validated += max(0, tlc_result.ncases // every - len({json.dumps(o["case"], sort_keys=True) for o in bad}))
    return bad


def sig_of(o):
    """Stable signature of a discrepancy: abstract pattern (not the random concretisation)."""
    c = o["case"]
    pat = ",".join("/".join(str(x) for x in v) for v in c["e"])
    return (f"verify_signable[{o['variant']}{'' if o['encoding'] == 'utf-8' else ':' + o['encoding']}] gpg={c['gpg']} thr={c['thr']} auth={c['auth']} "
            f"e=({pat}) alt={c['alt'][0]} junk={c['junk'][0]} allowed={'|'.join(c['allowed'])} observed={o['observed']}")


def coarse_sig(o):
    if o.get("strip_mismatch"):
        return _coarse_sig({**o, "strip_mismatch": False}) + " - although the envelope as presented was ACCEPTED"
    return _coarse_sig(o)


def _coarse_sig(o):
    c = o["case"]
    return (f"verify_signable[{o['variant']}{'' if o['encoding'] == 'utf-8' else ':' + str(o['encoding'])}] gpg={c['gpg']} "
            f"allowed={'|'.join(c['allowed'])} observed={o['observed']}")
