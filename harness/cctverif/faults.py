"""Line-granular fault injection into the in-place signing procedures (C18) and observation of their results
(C11), without touching the library's source: sys.settrace raises an InjectedFault at the n-th executed line
of library (or json-encoder) code, sys.addaudithook observes when the target file is opened for writing,
renamed over or removed.  Each run becomes one abstract event; Trace_InPlace.tla judges the events."""
from __future__ import annotations

import copy
import hashlib
import json
import os
import random
import sys

from . import crypto, gamma, lib
from .core import REPO
from .twins import twin_canon

PKG_DIR = os.path.join(REPO, "conda_content_trust") + os.sep
JSON_DIR = os.path.dirname(json.__file__) + os.sep


class InjectedFault(BaseException):
    """BaseException: no `except Exception` in the library can swallow it."""


# The same fault wearing the classes that real interruptions have (Ctrl-C, exit requests, out of memory, I/O errors, time-outs), so that a
# handler written for one of them (`except KeyboardInterrupt: save what we have`) runs.
FAULT_KINDS = {"plain": InjectedFault}
for _b in (KeyboardInterrupt, SystemExit, MemoryError, OSError, TimeoutError, RecursionError, GeneratorExit, ValueError, TypeError, KeyError):
    FAULT_KINDS[_b.__name__] = type("Injected" + _b.__name__, (InjectedFault, _b), {})


# ------------------------------------------------------------------------------------------ audit hook
_AUDIT = {"active": False, "target": None, "touched": False, "installed": False, "events": []}
_WRITE_FLAGS = os.O_WRONLY | os.O_RDWR | os.O_TRUNC | os.O_CREAT | os.O_APPEND


def _same(p):
    try:
        return _AUDIT["target"] is not None and os.path.abspath(os.fsdecode(p)) == _AUDIT["target"]
    except Exception:  # noqa: BLE001
        return False


def _hook(event, args):
    if not _AUDIT["active"]:
        return
    try:
        if event == "open":
            path, mode, flags = args
            if isinstance(path, (str, bytes)) and _same(path):
                writing = (isinstance(mode, str) and any(c in mode for c in "wax+")) or (isinstance(flags, int) and flags & _WRITE_FLAGS)
                if writing:
                    _AUDIT["touched"] = True
                    _AUDIT["events"].append("open-for-writing")
        elif event in ("os.rename", "os.replace"):
            if _same(args[0]) or _same(args[1]):
                _AUDIT["touched"] = True
                _AUDIT["events"].append(event)
        elif event in ("os.remove", "os.unlink", "os.truncate", "os.rmdir", "shutil.move", "shutil.copyfile"):
            if any(isinstance(a, (str, bytes)) and _same(a) for a in args):
                _AUDIT["touched"] = True
                _AUDIT["events"].append(event)
    except Exception:  # noqa: BLE001
        pass


def install_audit():
    if not _AUDIT["installed"]:
        sys.addaudithook(_hook)
        _AUDIT["installed"] = True


# ------------------------------------------------------------------------------------------ site classification
def classify_site(frame):
    """Positive identification only, by the functions on the stack (innermost first)."""
    names = []
    f = frame
    while f is not None:
        fn = f.f_code.co_filename
        if fn.startswith(PKG_DIR):
            names.append(f.f_code.co_name)
        elif fn.startswith(JSON_DIR):
            names.append("<json>")
        elif "cctverif" in fn and f.f_code.co_name in ("create_signature", "export_pubkey"):
            names.append("<stub:%s>" % f.f_code.co_name)
        f = f.f_back
    s = set(names)
    inner = names[0] if names else ""
    if "serialize_and_sign" in s:
        return "Sign"
    if "<stub:create_signature>" in s or "sign_via_gpg" in s:
        return "AskSigner"
    if "<stub:export_pubkey>" in s or "fetch_keyval_from_gpg" in s:
        return "FetchKey"
    if ("<json>" in s or "canonserialize" in s):
        if "write_metadata_to_file" in s:
            return "Serialize"
        if "sign_root_metadata_dict_via_gpg" in s:
            return "SerializeSigned"
        return "unclassified"
    if "load_metadata_from_file" in s:
        return "Load"
    if "_check_sslib_available" in s:
        return "CheckAvailable"
    if inner.startswith(("checkformat_", "is_")):
        return "Validate"
    if inner in ("from_hex", "from_bytes", "to_hex", "to_bytes"):
        return "LoadKey"
    return "unclassified"


class Tracer:
    def __init__(self, fault_at=None, record=True, kind="plain"):
        self.kind = kind
        self.record = record
        self.n = 0
        self.fault_at = fault_at
        self.sites = []          # (class, touched-before) per counted line event (baseline only)
        self.fault_site = None
        self.fault_touched = None

    def _local(self, frame, event, arg):
        if event == "line":
            self.n += 1
            if self.fault_at is None and not self.record:
                pass
            elif self.fault_at is None:
                self.sites.append((classify_site(frame), _AUDIT["touched"]))
            elif self.n == self.fault_at:
                self.fault_site = classify_site(frame)
                self.fault_touched = _AUDIT["touched"]
                raise FAULT_KINDS[self.kind](f"injected at line event {self.n}")
        return self._local

    def glob(self, frame, event, arg):
        fn = frame.f_code.co_filename
        if fn.startswith(PKG_DIR) or fn.startswith(JSON_DIR):
            return self._local
        return None


# ------------------------------------------------------------------------------------------ procedures
class StubGpg:
    """Stand-in for securesystemslib.gpg.functions (not installed): an OpenPGP-framed ed25519 signer."""

    def __init__(self, seed: bytes, fingerprint: str, fail=None, smuggle=None):
        self.seed, self.fp, self.fail, self.smuggle = seed, fingerprint, fail, smuggle

    def create_signature(self, data, keyid):
        if self.fail == "signer":
            raise ValueError("gpg failed to sign")
        hdr = crypto.DEFAULT_HDR
        sig = {"keyid": keyid, "other_headers": hdr.hex(), "signature": crypto.gpg_sign(self.seed, data, hdr).hex()}
        if self.smuggle is not None:
            sig["other_headers"] = self.smuggle     # an unserializable value smuggled into the result
        return sig

    def export_pubkey(self, keyid):
        if self.fail == "lookup":
            raise KeyError("no such key in the keyring")
        return {"keyval": {"public": {"q": crypto.fast_public(self.seed).hex()}}}


FP = "f075dd2f6f4cb3bd76134bbb81b6ca16ef9cd589"
ART_NAMES = ["a1", "a2", "a3"]
CONDA_NAMES = ["c1", "c2", "c3"]


def concrete_name(n):
    return {"a": "pkg-%s-1.0-0.tar.bz2", "c": "pkg-%s-1.0-0.conda"}[n[0]] % n


def abstract_name(cname):
    if cname.startswith("pkg-") and (cname.endswith("-1.0-0.tar.bz2") or cname.endswith("-1.0-0.conda")):
        return cname[4:].split("-")[0]
    return "ghost"


def build_repodata(shape, r):
    """shape: {pk: [names]|None, cd: [names]|None, meta: {name: m}, pre: class, extra: bool}"""
    metas = {}

    rich = shape.get("rich", False)

    def meta(m):
        if m not in metas and rich:
            from .signing_engine import STRESS_PAYLOADS
            while True:
                v = r.choice(gamma.PAYLOADS + STRESS_PAYLOADS)(r)
                b = twin_canon(v)
                if all(twin_canon(x) != b for x in metas.values()):
                    break
            metas[m] = v
        if m not in metas and shape.get("tiny"):
            metas[m] = {"build": m}
        if m not in metas:
            metas[m] = {"name": "pkg", "version": "1.%d" % r.randint(0, 999), "build": m, "depends": ["x >=%d" % r.randint(0, 9)],
                        "size": r.randint(1, 10 ** 9), "sha256": "%064x" % r.getrandbits(256), "nested": {"é": [1.5, None]}}
        return copy.deepcopy(metas[m])
    d = {"info": {"subdir": "noarch"}, "repodata_version": 1}
    if shape["pk"] is not None:
        d["packages"] = {concrete_name(a): meta(shape["meta"][a]) for a in shape["pk"]}
    if shape["cd"] is not None:
        d["packages.conda"] = {concrete_name(a): meta(shape["meta"][a]) for a in shape["cd"]}
    pre = shape["pre"]
    stale = {"ab" * 32: {"signature": "cd" * 64}}
    if pre == "empty":
        d["signatures"] = {}
    elif pre == "stale_gone":
        d["signatures"] = {"gone-1.0-0.tar.bz2": stale}
    elif pre == "stale_present":
        names = [concrete_name(a) for a in (shape["pk"] or []) + (shape["cd"] or [])]
        d["signatures"] = {n: copy.deepcopy(stale) for n in names} or {"gone-1.0-0.tar.bz2": stale}
    elif pre == "stale_own_key":
        # a previous signing run by the same key over metadata that has been patched since
        names = [concrete_name(a) for a in (shape["pk"] or []) + (shape["cd"] or [])]
        seed = crypto.seed_for(77, shape.get("seed", 0))
        pub = crypto.fast_public(seed).hex()
        d["signatures"] = {n: {pub: {"signature": crypto.fast_sign(seed, twin_canon({"old": "metadata", "of": n})).hex()}} for n in names} \
            or {"gone-1.0-0.tar.bz2": stale}
    elif pre == "current_own_key":
        seed = crypto.seed_for(77, shape.get("seed", 0))
        pub = crypto.fast_public(seed).hex()
        d["signatures"] = {}
        for sec in ("packages", "packages.conda"):
            for n, md in d.get(sec, {}).items():
                d["signatures"][n] = {pub: {"signature": crypto.fast_sign(seed, twin_canon(md)).hex()}}
    elif pre == "junk":
        d["signatures"] = ["not", "a", "dict"]
    if shape["extra"]:
        listed = [concrete_name(a) for a in (shape["pk"] or []) + (shape["cd"] or [])]
        d["removed"] = ["x-1.0-0.tar.bz2"] + (r.sample(listed, r.randint(1, len(listed))) if listed and r.random() < 0.6 else [])
        d["x-extra"] = {"z": None, "packages": {"decoy-1.0-0.tar.bz2": {"name": "decoy"}}}
        # further top-level members whose NAMES resemble the two artifact sections: they are not artifact sections
        for nm in r.sample(["packages.whl", "packages.removed", "packages.previous", "packages_conda", "packages.conda.bak", "Packages", "packages ", "packages.",
                            "packages/noarch", "conda.packages", "signatures.old"], r.choice([0, 1, 2, 3])):
            d[nm] = r.choice([{"ghost-9.9-0.whl": {"name": "ghost", "version": "9.9"}},
                              {n: {"other": "metadata of " + n} for n in listed[:2]} or {"ghost-1.0-0.tar.bz2": {"name": "ghost"}},
                              ["x-1.0-0.tar.bz2"], None, "text", {}])
    items = list(d.items())
    r.shuffle(items)
    return dict(items), metas


def setup_case(case, workdir, seed):
    """Materialise one case: returns (callable, target path, context)."""
    r = random.Random(int.from_bytes(hashlib.sha256(("%d|" % seed + json.dumps(case, sort_keys=True)).encode()).digest()[:8], "big"))
    proc, inp = case["proc"], case["input"]
    key_seed = crypto.seed_for(77, seed)
    ctx = {"key_seed": key_seed, "pub": crypto.fast_public(key_seed).hex()}
    target = os.path.join(workdir, "target-%d.json" % os.getpid())
    signing, common, cli, rs = lib.cct("signing"), lib.cct("common"), lib.cct("cli"), lib.cct("root_signing")
    if proc in ("repodata", "cli_sign"):
        shape = dict(case["doc"])
        shape["seed"] = seed
        if inp == "no_packages":
            shape["pk"] = None
        doc, metas = build_repodata(shape, r)
        if inp == "packages_not_object":
            doc["packages"] = ["not", "an", "object"]
        if inp == "conda_not_object":
            doc["packages.conda"] = r.choice([["not", "an", "object"], "x", 5])
        ctx["doc"], ctx["metas"] = doc, metas
        data = twin_canon(doc) if (r.random() < 0.5 and shape["pre"] != "current_own_key") else json.dumps(doc).encode()
        if r.random() < 0.6:          # the same document as other tools write it: raw UTF-8 instead of \u escapes
            try:
                data = json.dumps(doc, ensure_ascii=False, indent=r.choice([None, 1, 4])).encode("utf-8")
            except UnicodeEncodeError:
                pass                  # lone surrogates cannot be written raw
        if inp == "not_json":
            data = b'{"packages": {"x": {"truncated": '
        with open(target, "wb") as f:
            f.write(data)
        key_hex = key_seed.hex()
        if inp == "bad_key":
            key_hex = r.choice([key_hex.upper(), key_hex[:-2], key_hex + "00", "zz" * 32, ""])
        if proc == "repodata":
            if inp == "bad_key" and r.random() < 0.3:
                key_hex = r.choice([None, 5, key_seed])
            return (lambda: signing.sign_all_in_repodata(target, key_hex)), target, ctx
        kf = os.path.join(workdir, "key-%d.pri" % os.getpid())
        if inp == "key_file_unreadable":
            kf = os.path.join(workdir, "does-not-exist.pri")
        else:
            with open(os.open(kf, os.O_WRONLY | os.O_CREAT | os.O_TRUNC, 0o600), "w") as f:      # a private key file: owner-only, as an operator would keep it
                f.write(("not hex at all\n" if inp == "key_file_not_hex" else
                         (r.choice([key_seed.hex()[:-2], key_seed.hex() + "00", "zz" * 32, ""]) if inp == "bad_key"
                          else r.choice([key_hex, key_hex.upper(), "  " + key_hex + "\n"]))))
        return (lambda: cli.cli(["sign-artifacts", target, kf])), target, ctx
    if proc in ("gpg", "cli_gpg"):
        from . import metadata
        md = {"signatures": {}, "signed": metadata.delegating_doc("root", 1, {"root": metadata.rule([ctx["pub"]], 1),
                                                                              "key_mgr": metadata.rule([ctx["pub"]], 1)}, r)}
        if r.random() < 0.5:
            md["signatures"]["ab" * 32] = {"other_headers": "04", "signature": "cd" * 64}
        if r.random() < 0.4:
            # re-signing after an edit: an entry by the SAME key is already there, made over the previous content
            prev = dict(md["signed"], version=md["signed"]["version"] + 1) if r.random() < 0.5 else {"previous": "content"}
            md["signatures"][ctx["pub"]] = {"other_headers": crypto.DEFAULT_HDR.hex(),
                                            "signature": crypto.gpg_sign(key_seed, twin_canon(prev), crypto.DEFAULT_HDR).hex()}
        if inp == "not_signable":
            md = r.choice([{"signed": md["signed"]}, {"signatures": [], "signed": md["signed"]}, [md], {**md, "extra": 1}])
        ctx["doc"] = md
        data = twin_canon(md) if r.random() < 0.5 else json.dumps(md, indent=4).encode()     # hand-edited / foreign-tool layout
        if inp == "not_json":
            data = b"[1, 2"
        with open(target, "wb") as f:
            f.write(data)
        stub = StubGpg(key_seed, FP, fail={"signer_fails": "signer", "key_lookup_fails": "lookup"}.get(inp),
                       smuggle=(b"bytes are not JSON" if inp == "unserializable" else None))
        avail = inp != "no_sslib"
        fp = FP if inp != "bad_key" else r.choice(["xyz", FP[:-1], FP + "0", "g" * 40])

        def prep():
            rs.SSLIB_AVAILABLE = avail
            rs.gpg_funcs = stub
        ctx["prep"] = prep
        if proc == "gpg":
            return (lambda: rs.sign_root_metadata_via_gpg(target, fp)), target, ctx
        fparg = fp if inp == "bad_key" else r.choice([FP, FP.upper(), " ".join(FP[i:i + 4] for i in range(0, 40, 4))])
        return (lambda: cli.cli(["gpg-sign", fparg, target])), target, ctx
    # write
    value = {"b": [1, 2.5, {"c": None}], "a": "é", "n": r.randint(0, 99)}
    if inp == "unserializable":
        value["bad"] = {1, 2, 3}
    ctx["doc"] = value
    with open(target, "wb") as f:
        f.write(b"ORIGINAL CONTENT %d\n" % r.randint(0, 999))
    return (lambda: common.write_metadata_to_file(value, target)), target, ctx


def run_case(case, workdir, seed, fault_at=None, record=True, kind="plain"):
    """Execute one case (optionally with an injected fault); return the abstract event + baseline info."""
    install_audit()
    fn, target, ctx = setup_case(case, workdir, seed)
    with open(target, "rb") as f:
        before = f.read()
    if "prep" in ctx:
        ctx["prep"]()
    tr = Tracer(fault_at, record, kind)
    _AUDIT.update(active=True, target=os.path.abspath(target), touched=False, events=[])
    exc = None
    old_stdout = sys.stdout
    sys.stdout = lib.Sink()
    sys.settrace(tr.glob)
    try:
        fn()
    except InjectedFault as e:
        exc = e
    except BaseException as e:  # noqa: BLE001
        exc = e
    finally:
        sys.settrace(None)
        sys.stdout = old_stdout
        _AUDIT["active"] = False
    try:
        with open(target, "rb") as f:
            after = f.read()
    except FileNotFoundError:
        after = None
    ev = {"proc": case["proc"], "input": case["input"], "doc": case.get("doc"),
          "touched": _AUDIT["touched"], "changed": after != before,
          "injected": isinstance(exc, InjectedFault),
          "completed": exc is None,
          "site": tr.fault_site if isinstance(exc, InjectedFault) else "none",
          "outcome": "ok" if exc is None else ("InjectedFault" if isinstance(exc, InjectedFault) else lib.classify(exc)),
          "audit": list(_AUDIT["events"])}
    return ev, tr, before, after, ctx
