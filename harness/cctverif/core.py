"""Run context: scratch space, TLC bookkeeping, violations, known findings, evidence, exit status."""
from __future__ import annotations

import atexit
import hashlib
import json
import os
import re
import shutil
import sys
import tempfile
import time

from . import tlc as _tlc
from .tlc import MachineryFailure

VERIF = os.path.dirname(os.path.dirname(os.path.dirname(os.path.abspath(__file__))))
REPO = os.path.abspath(os.environ.get("VERIF_REPO", "/repo"))
KNOWN_FILE = os.path.join(VERIF, "known_findings.json")
OUT = os.path.abspath(os.environ.get("VERIF_OUT", VERIF))     # where evidence/ and replays/ are written (seed evaluation redirects it)


def canon_hash(obj) -> str:
    return hashlib.sha256(json.dumps(obj, sort_keys=True, default=str).encode()).hexdigest()[:16]


class Run:
    def __init__(self, pid: str, tier: str, seed: int, level: str):
        self.pid, self.tier, self.seed, self.level = pid, tier, seed, level
        self.t0 = time.time()
        self.scratch = tempfile.mkdtemp(prefix=f"cctverif-{pid}-")
        atexit.register(shutil.rmtree, self.scratch, True)
        self.states = 0
        self.transitions = 0
        self.tlc_runs = []
        self.traces_validated = 0
        self.evaluations = 0
        self._distinct = set()
        self.samples = []
        self.rule = ""
        self.exhaustive = False
        self.extra = {}
        self.assumptions = [
            "ed25519 is unforgeable and SHA-256 collision free (symbolic in the TLA+ spec; bound to the real primitives by C10/C19)",
            "TLC, the TLA+ text, the abstraction/concretisation code in /verif/harness, hashlib, json.loads and the Python interpreter are trusted",
        ]
        self.violations = {}     # signature -> (detail, count)
        self.known_hits = {}     # finding id -> count
        self.drift = {}
        self.skipped = []
        self.mutants = {}        # spec mutant -> killed by
        self._known = self._load_known()

    # ------------------------------------------------------------------ TLC
    def tlc(self, module, cfg, *, must_hold=True, **kw) -> _tlc.TLCResult:
        kw.setdefault("workers", 16)
        r = _tlc.run_tlc(module, cfg, self.scratch, **kw)
        self.states += r.distinct
        self.transitions += r.generated
        self.tlc_runs.append({"module": module, "cfg": r.cfg, "distinct": r.distinct, "generated": r.generated,
                              "depth": r.depth, "wall_s": round(r.wall_s, 2), "violated": r.violated,
                              "cases": r.ncases})
        if must_hold and not r.ok:
            raise MachineryFailure(
                f"the specification itself violates {r.violated} ({module} / {r.cfg}); this is a defect of the "
                f"model, not of the code:\n{r.violation_text[:3000]}")
        return r

    def mutant(self, module, cfg, expect: str | None = None, **kw):
        """Run a spec-mutant configuration: TLC must report a counterexample."""
        kw.setdefault("workers", 16)
        r = _tlc.run_tlc(module, cfg, self.scratch, **kw)
        self.tlc_runs.append({"module": module, "cfg": r.cfg, "mutant": True, "distinct": r.distinct,
                              "generated": r.generated, "violated": r.violated, "wall_s": round(r.wall_s, 2)})
        if r.ok:
            raise MachineryFailure(f"spec mutant {cfg} of {module} survived: the invariants are vacuous for it")
        if expect and expect not in str(r.violated):
            raise MachineryFailure(f"spec mutant {cfg} killed by {r.violated}, expected {expect}")
        self.mutants[os.path.basename(cfg)] = r.violated
        return r

    # ------------------------------------------------------------------ bookkeeping
    def count(self, abstract_case, nontrivial=True, n_exec=1):
        self.evaluations += n_exec
        if nontrivial:
            self._distinct.add(canon_hash(abstract_case))

    def sample(self, s, cap=6):
        if len(self.samples) < cap:
            self.samples.append(s)

    def note_drift(self, what):
        self.drift[what] = self.drift.get(what, 0) + 1

    # ------------------------------------------------------------------ violations
    def _load_known(self):
        try:
            with open(KNOWN_FILE) as f:
                data = json.load(f)
        except FileNotFoundError:
            return []
        return [k for k in data.get("findings", []) if k.get("status") == "open" and k.get("property") == self.pid]

    def violation(self, signature: str, detail: dict):
        """signature: stable, human-readable canonical form of *what* fails (api + abstract pattern + observed)."""
        for k in self._known:
            if re.fullmatch(k["match"], signature):
                self.known_hits.setdefault(k["id"], [k, 0])[1] += 1
                return
        if signature in self.violations:
            self.violations[signature][1] += 1
        else:
            self.violations[signature] = [detail, 1]

    # ------------------------------------------------------------------ finish
    def finish(self) -> int:
        wall = time.time() - self.t0
        rdir = os.path.join(OUT, "replays", self.pid)
        lines = []
        for kid, (k, n) in sorted(self.known_hits.items()):
            lines.append(f"KNOWN-FINDING: property={self.pid} {k['what']} (matched {n} case(s); id {kid})")
        for sig, (detail, n) in sorted(self.violations.items()):
            os.makedirs(rdir, exist_ok=True)
            path = os.path.join(rdir, canon_hash(sig) + ".json")
            with open(path, "w") as f:
                json.dump({"property": self.pid, "signature": sig, "occurrences": n, "seed": self.seed,
                           "tier": self.tier, **detail}, f, indent=1, default=repr)
            lines.append(f"VIOLATION property={self.pid} replay={path}")
            print(f"  -- {sig}  (x{n})")
        cov = {
            "states": self.states, "transitions": self.transitions,
            "traces_validated_against_impl": self.traces_validated,
            "evaluations": self.evaluations, "distinct_nontrivial": len(self._distinct),
            "rule": self.rule, "samples": self.samples or ["(no case executed)"], "exhaustive": self.exhaustive,
            "tlc_runs": self.tlc_runs, "spec_mutants_killed": self.mutants, "drift": self.drift,
            "skipped_subchecks": self.skipped, "known_findings_hit": {k: v[1] for k, v in self.known_hits.items()},
            "violation_signatures": sorted(self.violations)[:50],
        }
        cov.update(self.extra)
        ev = {"property_id": self.pid, "tier": self.tier, "seed": self.seed, "level": self.level,
              "coverage": cov, "assumptions": self.assumptions, "wall_s": round(wall, 2),
              "violations": sum(v[1] for v in self.violations.values())}
        os.makedirs(os.path.join(OUT, "evidence"), exist_ok=True)
        tmp = os.path.join(OUT, "evidence", f".{self.pid}.json.tmp")
        with open(tmp, "w") as f:
            json.dump(ev, f, indent=1, default=repr)
        os.replace(tmp, os.path.join(OUT, "evidence", f"{self.pid}.json"))
        for ln in lines:
            print(ln)
        print(f"[{self.pid}] tier={self.tier} seed={self.seed} states={self.states} transitions={self.transitions} "
              f"traces={self.traces_validated} evaluations={self.evaluations} distinct={len(self._distinct)} "
              f"violations={len(self.violations)} known={len(self.known_hits)} wall={wall:.1f}s")
        sys.stdout.flush()
        return 1 if self.violations else 0
