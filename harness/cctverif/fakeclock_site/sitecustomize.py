"""Installed through PYTHONPATH by the harness for command-line entry points that must run under a chosen clock."""
import os
import sys

_v = os.environ.get("CCTVERIF_FAKE_NOW")
if _v:
    sys.path.insert(0, os.environ["CCTVERIF_HARNESS"])
    try:
        from cctverif.fakeclock import FakeClock
        _parts = _v.split(":")
        _c = FakeClock(tick=float(_parts[1]) if len(_parts) > 1 else 0.0)
        _c.set_epoch(float(_parts[0]))
    finally:
        sys.path.pop(0)
