"""Concretisation of Schema.tla's field classes into real documents."""
from __future__ import annotations

import random

from . import crypto, gamma
from .twins import twin_canon

KA, KB = crypto.fast_public(crypto.seed_for(901)).hex(), crypto.fast_public(crypto.seed_for(902)).hex()
SIG = "0a1b" * 32


def date(c, r):
    return {
        "ok": r.choice(["2025-01-01T10:30:00Z", "1999-12-31T23:59:59Z", "2020-07-13T05:46:45Z"]),
        "leap_ok": "2024-02-29T00:00:00Z",
        "nonstr": r.choice([20250101, ["2025-01-01T10:30:00Z"], 1.5, True, {"date": "2025-01-01T10:30:00Z"}]), "null": None,
        "noZ": "2025-01-01T10:30:00", "noT": "2025-01-01 10:30:00Z", "trailing": r.choice(["2025-01-01T10:30:00Z ", "2025-01-01T10:30:00Zx", "2025-01-01T10:30:00Z\n2"]),
        "wrongsep": r.choice(["2025/01/01T10:30:00Z", "2025-01-01T10.30.00Z"]), "missing_field": r.choice(["2025-01-01T10:30Z", "2025-01T10:30:00Z"]),
        "extra_field": r.choice(["2025-01-01T10:30:00:00Z", "2025-01-01-01T10:30:00Z", "2025-01-01T10:30:00.5Z", "2025-01-01T10:30:00+00:00Z"]),
        "empty": "",
        "tz_offset": r.choice(["2025-01-01T10:30:00+0100", "2025-01-01T10:30:00-05:00", "2025-01-01T10:30:00+0000", "2025-01-01T10:30:00+00:00", "2025-01-01T10:30:00UTC",
                               "2025-01-01T10:30:00GMT", "2025-01-01T10:30:00-0000"]),
        "unpadded": r.choice(["2025-1-1T10:30:00Z", "2025-01-01T1:3:0Z"]), "lower_tz": r.choice(["2025-01-01t10:30:00z", "2025-01-01T10:30:00z"]),
        "nonascii_digits": "٢٠٢٥-٠١-٠١T١٠:٣٠:٠٠Z",
        "feb30": r.choice(["2025-02-30T10:30:00Z", "2031-04-31T00:00:00Z", "2031-02-29T12:00:00Z", "1900-02-29T00:00:00Z"]),
        "month13": r.choice(["2025-13-01T10:30:00Z", "2025-00-10T10:30:00Z"]), "day00": r.choice(["2025-01-00T10:30:00Z", "2025-01-32T10:30:00Z"]),
        "hour25": "2025-01-01T25:00:00Z", "min60": "2025-01-01T10:60:00Z",
        "h24": "2025-01-01T24:00:00Z", "sec60": "2025-01-01T23:59:60Z", "year0": "0000-01-01T00:00:00Z",
    }[c]


def number(c, r):
    return {"ok1": r.choice([1, 2, 7]), "ok_huge": r.choice([2 ** 64 + 1, 10 ** 30, 2 ** 31]), "zero": 0, "neg": r.choice([-1, -2 ** 70]),
            "frac": r.choice([1.5, 0.5, 2.000001]), "str": r.choice(["1", "one", ""]), "null": None, "inf": float("inf"), "neginf": float("-inf"),
            "nan": float("nan"), "list": [1], "bool": True, "intfloat": r.choice([1.0, 2.0, 1e3])}[c]


def _unusual(r):
    from . import metadata
    d = metadata.unusual_roles(r, KA, n=r.choice([2, 4, 8]))
    if r.random() < 0.5:
        d["key_mgr.json"] = {"pubkeys": [KA], "threshold": 1}       # next to "key_mgr": two roles, two names
    return d


def delegations(c, r):
    good2 = {"root": {"pubkeys": [KA, KB], "threshold": 2}, "key_mgr": {"pubkeys": [KB], "threshold": 1}}
    one = lambda **kw: {"root": {"pubkeys": [KA], "threshold": 1, **kw}}   # noqa: E731
    thr = lambda t: {"root": {"pubkeys": [KA], "threshold": t}, "key_mgr": {"pubkeys": [KB], "threshold": 1}}   # noqa: E731
    keys = lambda ks: {"root": {"pubkeys": ks, "threshold": 1}}   # noqa: E731
    table = {
        "empty": {}, "one_ok": one(), "two_ok": good2, "thr_gt_keys": thr(5), "emptykeys": {"root": {"pubkeys": [], "threshold": 1}},
        "thr_huge": thr(2 ** 70),
        "roles_unusual": {**good2, **_unusual(r)},
        "not_dict": r.choice([[], "x", 5, [good2]]), "null": None,
        "entry_not_dict": {"root": r.choice([[KA], "x", None, 1])}, "entry_missing_thr": {"root": {"pubkeys": [KA]}},
        "entry_missing_keys": {"root": {"threshold": 1}}, "entry_extra": one(extra=r.choice([1, None, "x"])),
        "keys_not_list": {"root": {"pubkeys": r.choice([{KA: 1}, KA, None, (KA,)] if False else [{KA: 1}, KA, None]), "threshold": 1}},
        "key_upper": keys([KA.upper() if KA.upper() != KA else "AB" * 32]), "key_short": keys([KA[:-2]]), "key_long": keys([KA + "00"]),
        "key_dup": keys([KA, KB, KA]), "key_nonstr": keys([r.choice([5, None, [KA], b"ab".hex() and 1.5])]), "key_ws": keys([r.choice([" " + KA[1:], KA[:-1] + "\n", KA[:32] + " " + KA[33:]])]),
        "key_nonascii_digits": keys([KA.translate({ord("0") + i: r.choice([0x0660, 0xFF10, 0x0966]) + i for i in range(10)}) if any(ch.isdigit() for ch in KA)
                                     else "\u0661\uff12" * 32]),
        "thr_zero": thr(0), "thr_neg": thr(-1), "thr_frac": thr(1.5), "thr_str": thr("1"), "thr_null": thr(None), "thr_inf": thr(float("inf")),
        "thr_nan": thr(float("nan")), "thr_list": thr([1]), "thr_bool": thr(True), "thr_intfloat": thr(1.0),
        "role_empty": {"": {"pubkeys": [KA], "threshold": 1}},
    }
    return table[c]


def build(doc, r: random.Random):
    """Returns the concrete document for an abstract Schema.tla document."""
    signed = {}
    if doc["type"] != "missing":
        signed["type"] = {"root": "root", "key_mgr": "key_mgr", "unsupported": r.choice(["pkg_mgr", "", "root ", "targets"]),
                          "nonstr": r.choice([["root"], 1, None, {"root": 1}]), "uppercase": r.choice(["ROOT", "Root", "Key_mgr"])}[doc["type"]]
    if doc["spec"] != "missing":
        signed["metadata_spec_version"] = {"ok": r.choice(["0.6.0", "0.1.0", "1", "10.20.30"]), "nonstr": r.choice([6, 0.6, ["0.6.0"]]),
                                           "nondotted": r.choice(["v1", "", "0.6.0-beta", "latest"]), "null": None}[doc["spec"]]
    if doc["deleg"] != "missing":
        signed["delegations"] = delegations(doc["deleg"], r)
    if doc["exp"] != "missing":
        signed["expiration"] = date(doc["exp"], r)
    if doc["ts"] != "absent":
        signed["timestamp"] = date(doc["ts"], r)
    if doc["ver"] != "absent":
        signed["version"] = number(doc["ver"], r)
    if r.random() < 0.3:
        signed["x-extra"] = r.choice([1, None, {"a": []}])       # extra fields inside signed are allowed
    items = list(signed.items())
    r.shuffle(items)
    signed = dict(items)
    sk = doc["signedkind"]
    signed_v = {"dict": signed, "list": [signed], "str": "root", "int": 7, "null": None}[sk]
    hdr = gamma.HEADERS[0].hex()
    sigs = {"none": {}, "raw_ok": {KA: {"signature": SIG}}, "gpg_ok": {KA: {"other_headers": hdr, "signature": SIG}},
            "gpgfp_ok": {KB: {"other_headers": hdr, "signature": SIG, "see_also": "f0" * 20}},
            "bad_value": {KA: r.choice([{"signature": SIG.upper()}, {"signature": SIG[:-2]}, {"signature": SIG + "00"}, {"signature": SIG + SIG}, {"signature": SIG + "0"},
                                        {"other_headers": hdr, "signature": SIG + "ab"}, {"signature": SIG, "extra": 1}, {"sig": SIG}, {}])},
            "bad_value_nondict": {KA: r.choice(["x", None, 5, [SIG], SIG])},
            "bad_gpg_headers": {KA: r.choice([{"other_headers": "", "signature": SIG}, {"other_headers": "AB", "signature": SIG},
                                              {"other_headers": "abc", "signature": SIG}, {"other_headers": hdr, "signature": SIG, "see_also": "f0"}])},
            "hex_as_char_list": {KA: r.choice([{"signature": list(SIG)}, {"other_headers": list(hdr), "signature": SIG}, {"other_headers": ["0", "4"], "signature": SIG},
                                               {"other_headers": dict.fromkeys("04"), "signature": SIG}, {"signature": dict.fromkeys(SIG)},
                                               {"other_headers": hdr, "signature": SIG, "see_also": list("f0" * 20)},
                                               {"other_headers": hdr, "signature": SIG, "see_also": {"%02d" % i: None for i in range(40)}}])},
            "nonkey_name_ok_value": {r.choice(["junk", "", KA.upper(), KA + " "]): {"signature": SIG}}}[doc["sigvals"]]
    env = {"signatures": sigs, "signed": signed_v}
    e = doc["env"]
    if e == "extra_top":
        env["extra"] = r.choice([1, None, {}])
    elif e == "no_signatures":
        del env["signatures"]
    elif e == "no_signed":
        del env["signed"]
    elif e == "sigs_not_dict":
        env["signatures"] = r.choice([[], "x", 5])
    elif e == "sigs_null":
        env["signatures"] = None
    elif e == "not_dict":
        env = r.choice([[env], "x", None, 5, (env,)])
    return env
