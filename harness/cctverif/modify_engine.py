"""Replay of Modify.tla scripts into cli.interactive_modify_metadata through scripted console input."""
from __future__ import annotations

import builtins
import copy
import json
import os
import random

from . import crypto, faults, gamma, lib, metadata
from .traces_verify import oracle_verify
from .twins import twin_canon


class ScriptExhausted(Exception):
    pass


def replay_script(case, seed, idx, workdir):
    cli = lib.cct("cli")
    r = random.Random(seed * 31337 + idx)
    keys = gamma.Keys(2, seed, offset=1400)
    init = case["init"]
    doc = metadata.delegating_doc("root", r.choice([1, 3]), {"root": metadata.rule([keys.pub[1], keys.pub[2]], init["root"]),
                                                             "key_mgr": metadata.rule([keys.pub[2]], init["key_mgr"])}, r)
    md = {"signatures": {}, "signed": doc}
    before = twin_canon(md)
    out_path = os.path.join(workdir, "modified-%d-%d.json" % (os.getpid(), idx))
    if os.path.exists(out_path):
        os.unlink(out_path)
    answers = []
    for ev in case["script"]:
        op = ev["op"]
        if op == "thresh":
            answers += ["7", ev["role"], str(ev["value"])]
        elif op == "thresh_bad":
            answers += ["7", ev["role"]] + ([] if ev["role"] == "nosuchrole" else [ev["value"]])
        elif op == "addsig" and ev["key"] == 3:      # the OpenPGP key: named by its fingerprint, signed through the gpg path
            answers += ["2", r.choice([faults.FP, faults.FP.upper(), " ".join(faults.FP[i:i + 4] for i in range(0, 40, 4))])]
        elif op == "addsig":
            h = keys.seeds[ev["key"]].hex()
            answers += ["2", r.choice([h, h.upper(), " ".join(h[i:i + 8] for i in range(0, 64, 8))])]
        elif op == "addsig_bad":
            answers += ["2", r.choice(["not a key", "abcd", "g" * 64])]
        elif op == "noop":
            answers += [ev["choice"]]
        elif op == "write":
            answers += ["0", out_path]
        elif op == "abort":
            answers += ["1"]
    it = iter(answers)

    def fake_input(prompt=""):
        try:
            return next(it)
        except StopIteration:
            raise ScriptExhausted() from None
    problems = []
    old_input = builtins.input
    builtins.input = fake_input
    rs = lib.cct("root_signing")
    old_gpg = (getattr(rs, "SSLIB_AVAILABLE", False), getattr(rs, "gpg_funcs", None))
    gseed = crypto.seed_for(1403, seed)
    gpub = crypto.fast_public(gseed).hex()
    rs.SSLIB_AVAILABLE, rs.gpg_funcs = True, faults.StubGpg(gseed, faults.FP)
    try:
        with lib.stdout_as("utf-8"):
            try:
                cli.interactive_modify_metadata(md)
                ended = True
            except ScriptExhausted:
                ended = False
            except Exception as e:  # noqa: BLE001
                problems.append(f"the loop raised {type(e).__name__}: {e}")
                ended = None
    finally:
        builtins.input = old_input
        rs.SSLIB_AVAILABLE, rs.gpg_funcs = old_gpg
        if old_gpg[1] is None and hasattr(rs, "gpg_funcs"):
            del rs.gpg_funcs
    script_ends = bool(case["script"]) and case["script"][-1]["op"] in ("write", "abort")
    if ended is not None and ended != script_ends:
        problems.append(f"loop {'ended' if ended else 'kept asking for input'} although the script {'does not end' if not script_ends else 'ends'} with write/abort")
    try:
        leftover = next(it)
        problems.append(f"the loop did not consume the whole script (next unread answer: {leftover!r})")
    except StopIteration:
        pass
    if twin_canon(md) != before:
        problems.append("the metadata object passed to the loop was modified")
    fin = case["final"]
    if fin["written"]:
        if not os.path.exists(out_path):
            problems.append("'write' chosen but no file was written")
        else:
            with open(out_path, "rb") as f:
                data = f.read()
            new = json.loads(data)
            if twin_canon(new) != data:
                problems.append("written file is not canonical")
            got_thr = {ro: new["signed"]["delegations"][ro]["threshold"] for ro in ("root", "key_mgr")}
            if got_thr != fin["thr"]:
                problems.append(f"written thresholds {got_thr} differ from the specification's {fin['thr']}")
            expect_rest = copy.deepcopy(doc)
            for ro in ("root", "key_mgr"):
                expect_rest["delegations"][ro]["threshold"] = fin["thr"][ro]
            if twin_canon(new["signed"]) != twin_canon(expect_rest):
                problems.append("written signed part differs from the working copy the specification defines")
            valid = sorted(k for k in (1, 2) if keys.pub[k] in new["signatures"] and isinstance(new["signatures"][keys.pub[k]], dict)
                           and oracle_verify(keys.pub[k], twin_canon(new["signed"]), new["signatures"][keys.pub[k]].get("signature", "")))
            ent3 = new["signatures"].get(gpub)
            if isinstance(ent3, dict) and "other_headers" in ent3 and oracle_verify(
                    gpub, crypto.gpg_digest(twin_canon(new["signed"]), bytes.fromhex(ent3["other_headers"])), ent3.get("signature", "")):
                valid.append(3)
            if valid != sorted(fin["valid"]):
                problems.append(f"valid signers in the written file {valid} differ from the specification's {sorted(fin['valid'])}")
            os.unlink(out_path)
    elif os.path.exists(out_path):
        problems.append("a file was written although the script never chose 'write'")
        os.unlink(out_path)
    return problems
