"""Access to the implementation under verification (imported from VERIF_REPO's working tree) and the
observation of one API call: outcome class, printed text, exception text.  No verdicts here."""
from __future__ import annotations

import contextlib
import importlib
import io
import multiprocessing as mp
import os
import sys

from .core import REPO

_mods = {}
_STDOUT_LOCK = __import__("threading").RLock()


def cct(name: str = ""):
    """Import conda_content_trust[.name] from the repository under verification, and assert it is that one."""
    full = "conda_content_trust" + ("." + name if name else "")
    if full in _mods:
        return _mods[full]
    if REPO not in sys.path[:1]:
        sys.path.insert(0, REPO)
    m = importlib.import_module(full)
    f = os.path.abspath(m.__file__)
    if not f.startswith(REPO + os.sep):
        raise RuntimeError(f"{full} imported from {f}, not from {REPO}")
    _mods[full] = m
    return m


class Sink(io.TextIOWrapper):
    """A stand-in for sys.stdout with a *real* encoder, so that printing behaves as on a real stream."""

    def __init__(self, encoding="utf-8", errors="strict"):
        super().__init__(io.BytesIO(), encoding=encoding, errors=errors, write_through=True)

    def text(self):
        self.flush()
        return self.buffer.getvalue().decode(self.encoding, "replace")


class _DeadPipe(io.RawIOBase):
    """The write end of a pipe whose reader has gone away (`... | head -1`), or a full disk behind a redirected stdout."""

    def __init__(self, err):
        self.err = err

    def writable(self):
        return True

    def write(self, b):
        import errno
        raise BrokenPipeError(errno.EPIPE, "Broken pipe") if self.err == "EPIPE" else OSError(errno.ENOSPC, "No space left on device")


class BrokenSink(io.TextIOWrapper):
    """sys.stdout on which every write fails with an OSError (encoding "broken:EPIPE" / "broken:ENOSPC")."""

    def __init__(self, err="EPIPE"):
        super().__init__(_DeadPipe(err), encoding="utf-8", write_through=True)

    def text(self):
        return ""

    def close(self):          # never flush into the dead pipe on disposal
        pass

    def __del__(self):
        pass


BROKEN_STDOUTS = ["broken:EPIPE", "broken:ENOSPC"]


@contextlib.contextmanager
def stdout_as(encoding="utf-8"):
    if encoding is None:          # keep the process's real stdout (subprocess configurations)
        class _N:
            def text(self):
                return ""
        yield _N()
        return
    with _STDOUT_LOCK:                # sys.stdout is process-global: serialise its replacement across threads
        old = sys.stdout
        s = BrokenSink(encoding.split(":")[1]) if encoding.startswith("broken:") else Sink(encoding)
        sys.stdout = s
        try:
            yield s
        finally:
            sys.stdout = old


def classify(exc: BaseException | None) -> str:
    """Outcome class of a call, by isinstance against the library's own hierarchy."""
    if exc is None:
        return "accept"
    c = cct("common")
    import cryptography.exceptions as ce
    if isinstance(exc, c.SignatureError):
        return "SignatureError"
    if isinstance(exc, c.UnknownRoleError):
        return "UnknownRoleError"
    if isinstance(exc, c.MetadataVerificationError):
        return "MetadataVerificationError"
    if isinstance(exc, c.CCT_Error):
        return "CCT_Error"
    if isinstance(exc, ce.InvalidSignature):
        return "InvalidSignature"
    if isinstance(exc, TypeError):
        return "TypeError"
    if isinstance(exc, ValueError):
        return "ValueError:" + type(exc).__name__ if type(exc) is not ValueError else "ValueError"
    return "internal:" + type(exc).__name__


def family(outcome: str) -> str:
    """Collapse ValueError subclasses (UnicodeEncodeError, JSONDecodeError ...) to their family."""
    return outcome.split(":")[0] if outcome.startswith("ValueError") else outcome


def call(fn, *a, encoding="utf-8", **kw):
    """Run fn(*a, **kw) with stdout replaced; return (outcome class, exception repr or None, printed text)."""
    with stdout_as(encoding) as s:
        try:
            fn(*a, **kw)
            exc = None
        except Exception as e:  # noqa: BLE001 - every exception class is an observation
            exc = e
    return classify(exc), (None if exc is None else f"{type(exc).__name__}: {str(exc)[:300]}"), s.text()


# ---------------------------------------------------------------------------------------------------------
def pool_map(fn, items, chunks=64, procs=None):
    """Order-preserving parallel map over picklable items with fork workers (the library is imported in
    the parent before forking only by name, each worker re-asserts the path on first use)."""
    items = list(items)
    if not items:
        return []
    procs = procs or min(16, os.cpu_count() or 1)
    if len(items) < 64 or procs == 1:
        return [fn(x) for x in items]
    ctx = mp.get_context("fork")
    with ctx.Pool(procs) as p:
        return p.map(fn, items, chunksize=max(1, len(items) // (procs * chunks)) or 1)
