"""code -> spec for verify_signable: seeded random adversarial envelopes are executed, each call is logged
at its return with arguments abstracted by alpha (twins + an independent ed25519/SHA-256 oracle), and
Trace_Verify.tla (which reuses Verify's own actions) judges every event."""
from __future__ import annotations

import copy
import hashlib
import json
import os
import random

from cryptography.exceptions import InvalidSignature
from cryptography.hazmat.primitives.asymmetric.ed25519 import Ed25519PublicKey

from . import crypto, gamma, lib
from .tlc import MachineryFailure
from .twins import twin_canon, twin_is_gpg_entry, twin_is_hex_key, twin_is_raw_entry

NK, NA, NJ = 8, 3, 3
BIG = {"NK": 1400, "NA": 6, "NJ": 400}
LIMITS = {"NK": NK, "NA": NA, "NJ": NJ}


def oracle_verify(pub_hex: str, data: bytes, sig_hex: str) -> bool:
    try:
        Ed25519PublicKey.from_public_bytes(bytes.fromhex(pub_hex)).verify(bytes.fromhex(sig_hex), data)
        return True
    except (InvalidSignature, ValueError):
        return False


def alpha_call(envelope, auth, thr, gpg, outcome, must=None):
    """Abstract one verify_signable call.  Returns event dict or None if it does not fit the trace bounds."""
    Pb = twin_canon(envelope["signed"])
    idx = {}

    def key_index(h):
        if h not in idx:
            idx[h] = len(idx) + 1
        return idx[h]
    for h in auth:
        key_index(h)
    entries, na, nj = [], 0, 0
    for name, val in envelope["signatures"].items():
        if twin_is_hex_key(name):
            nm = ["c", key_index(name)]
        else:
            folded = "".join(name.split()).lower() if isinstance(name, str) else ""
            if folded.startswith("0x"):
                folded = folded[2:]
            if twin_is_hex_key(folded):
                na += 1
                nm = ["alt", na]
            else:
                nj += 1
                nm = ["junk", nj]
        if twin_is_raw_entry(val):
            shape = "raw"
        elif twin_is_gpg_entry(val):
            shape = "gpgfp" if "see_also" in val else "gpg"
        else:
            shape = "bad"
        v = [shape, "none", "-", "-", False]
        if nm[0] == "c" and shape != "bad":
            if oracle_verify(name, Pb, val["signature"]):
                v = [shape, "self", "P", "raw", True]
            elif "other_headers" in val and oracle_verify(
                    name, crypto.gpg_digest(Pb, bytes.fromhex(val["other_headers"])), val["signature"]):
                v = [shape, "self", "P", "gpg", True]
        entries.append({"name": nm, "v": v})
    if len(idx) > LIMITS["NK"] or na > LIMITS["NA"] or nj > LIMITS["NJ"]:
        return None
    return {"api": "verify_signable", "entries": entries, "auth": sorted({idx[h] for h in auth}),
            "thr": thr, "gpg": gpg, "outcome": lib.family(outcome),
            "must": sorted({idx[h] for h in (must or []) if h in idx})}


# ------------------------------------------------------------------------------------------ generator
def adversarial_envelope(r: random.Random, keys: gamma.Keys):
    P, Q = gamma.make_payloads(r)
    Pb, Qb = twin_canon(P), twin_canon(Q)
    nkeys = r.randint(1, 6)
    ks = r.sample(range(1, keys.nk + 1), nkeys)
    sigs = {}
    hdr = r.choice(gamma.HEADERS)
    for k in ks:
        pub = keys.pub[k]
        t = r.randrange(16)
        raw = keys.sign(k, Pb).hex()
        g = keys.sign(k, crypto.gpg_digest(Pb, hdr)).hex()
        if t <= 2:
            sigs[pub] = {"signature": raw}
        elif t <= 5:
            sigs[pub] = {"other_headers": hdr.hex(), "signature": g}
        elif t == 6:   # valid signature over the whole envelope instead of the signed part
            sigs[pub] = {"signature": keys.sign(k, twin_canon({"signatures": {}, "signed": P})).hex()}
        elif t == 7:   # signature over a non-canonical serialization of the same value
            sigs[pub] = {"signature": keys.sign(k, json.dumps(P, sort_keys=True).encode()).hex()}
        elif t == 8:   # copied from another key's entry
            o = keys.other(k)
            sigs[pub] = {"signature": keys.sign(o, Pb).hex()}
        elif t == 9:   # the same valid signature under a second spelling as well
            sigs[pub] = {"signature": raw}
            sigs[gamma.alt_name(keys, k, r)] = {"signature": raw}
        elif t == 10:  # only under an alternative spelling
            sigs[gamma.alt_name(keys, k, r)] = {"signature": raw} if r.random() < .5 else {"other_headers": hdr.hex(), "signature": g}
        elif t == 11:  # gpg signature with a different header than the one signed
            h2 = r.choice([h for h in gamma.HEADERS if h != hdr])
            sigs[pub] = {"other_headers": h2.hex(), "signature": g}
        elif t == 12:  # signature over a related payload
            sigs[pub] = {"signature": keys.sign(k, Qb).hex()}
        elif t == 13:
            sigs[pub] = gamma.entry_value(["bad", "self", "P", r.choice(["raw", "gpg"]), True], k, keys, Pb, Qb, r)
        elif t == 14:  # gpg-shaped around raw signature / raw-shaped around gpg signature
            sigs[pub] = {"other_headers": hdr.hex(), "signature": raw} if r.random() < .5 else {"signature": g}
        else:
            sigs[pub] = {"other_headers": hdr.hex(), "signature": g, "see_also": "f075dd2f6f4cb3bd76134bbb81b6ca16ef9cd589"}
    for _ in range(r.choice([0, 0, 1, 2])):
        if sum(1 for n in sigs if not twin_is_hex_key(n)) < 3:
            sigs[gamma.junk_name(r, surrogates=False, nonascii=False)] = copy.deepcopy(r.choice(gamma.JUNK_VALUES))
    items = list(sigs.items())
    r.shuffle(items)
    return {"signatures": dict(items), "signed": P}, Q, ks


def make_trace(r: random.Random, keys: gamma.Keys, tid: int):
    """A history of 1..4 related calls (same envelope with other thresholds/authorised lists/modes, payload
    edits keeping the signatures, repeats) executed against the real verify_signable."""
    fn = lib.cct("authentication").verify_signable
    env, Q, ks = adversarial_envelope(r, keys)
    events, concrete = [], []
    for step in range(r.randint(1, 4)):
        e = copy.deepcopy(env)
        if step and r.random() < 0.3:
            e["signed"] = Q           # same keys, same signatures, different payload
        pool = list(keys.pub.values())
        auth = [keys.pub[k] for k in ks if r.random() < 0.7] + [p for p in pool if r.random() < 0.1]
        auth = list(dict.fromkeys(auth))
        r.shuffle(auth)
        thr = r.randint(1, max(1, len(auth) + 1))
        gpg = r.random() < 0.5
        out, exc, _ = lib.call(fn, e, list(auth), thr, gpg=gpg)
        ev = alpha_call(e, auth, thr, gpg, out)
        if ev is None:
            continue
        events.append(ev)
        concrete.append({"envelope": e, "authorized": auth, "threshold": thr, "gpg": gpg, "observed": out, "exc": exc})
    return {"id": tid, "events": events}, concrete


def validate(run, traces, cfg="Trace_Verify.cfg", module="Trace_Verify"):
    """Hand traces to TLC; returns {(tid, l): line} and checks every event was consumed."""
    path = os.path.join(run.scratch, f"traces-{module}-{len(traces)}-{random.random()}.json")
    with open(path, "w") as f:
        json.dump(traces, f)
    r = run.tlc(module, cfg, env={"TRACE_FILE": path}, workers=8, timeout=1800)
    os.unlink(path)
    seen = {(c["tid"], c["l"]): c for c in r.cases}
    for t in traces:
        for i in range(1, len(t["events"]) + 1):
            if (t["id"], i) not in seen:
                raise MachineryFailure(f"trace {t['id']} event {i} was not consumed by {module}")
    return seen


def random_traces(run, n, owner, api="verify_signable"):
    keys = gamma.Keys(NK, run.seed, offset=100)
    r = random.Random(run.seed * 7919 + 17)
    traces, conc = [], {}
    for tid in range(1, n + 1):
        t, c = make_trace(r, keys, tid)
        if t["events"]:
            traces.append(t)
            conc[tid] = c
            run.evaluations += len(t["events"])
    judge(run, traces, conc, owner)


def judge(run, traces, conc, owner, label="trace"):
    if not traces:
        return
    seen = validate(run, traces)
    nrej = 0
    for t in traces:
        rejected = False
        for i, ev in enumerate(t["events"], 1):
            line = seen[(t["id"], i)]
            if not line["ok"]:
                rejected = True
                o = {"observed": ev["outcome"], "allowed": line["allowed"], "must_ok": line.get("must_ok", True)}
                c = conc[t["id"]][i - 1]
                if owner(o):
                    run.violation(f"{label} verify_signable gpg={ev['gpg']} allowed={'|'.join(line['allowed'])} observed={ev['outcome']}"
                                  + ("" if line.get("must_ok", True) else " (a signature made by the library/fixture signer is not a valid signature per the independent oracle)"),
                                  {"kind": "verify_signable", "concrete": c, "allowed": line["allowed"], "event": ev,
                                   "trace_id": t["id"], "event_index": i})
                else:
                    run.note_drift(f"trace event outside Allowed owned by another property: observed={ev['outcome']}")
            elif line["predicted"] != ev["outcome"]:
                run.note_drift("implementation-layer prediction differs")
        if not rejected:
            run.traces_validated += 1
        else:
            nrej += 1
        run._distinct.add("t" + hashlib.sha256(json.dumps(t["events"], sort_keys=True).encode()).hexdigest()[:15])
    if traces:
        run.sample({"trace": traces[0]})
    run.extra["traces_rejected"] = run.extra.get("traces_rejected", 0) + nrej


def library_signed_traces(run, n, owner):
    """Envelopes produced by the library's own wrap_as_signable / sign_signable, verified under the
    corresponding public keys (plus junk added afterwards)."""
    signing = lib.cct("signing")
    common = lib.cct("common")
    fn = lib.cct("authentication").verify_signable
    keys = gamma.Keys(NK, run.seed, offset=200)
    r = random.Random(run.seed * 31 + 5)
    traces, conc = [], {}
    for tid in range(1, n + 1):
        P, _ = gamma.make_payloads(r)
        env = signing.wrap_as_signable(P)
        ks = r.sample(range(1, NK + 1), r.randint(1, 5))
        for k in ks:
            signing.sign_signable(env, common.PrivateKey.from_bytes(keys.seeds[k]))
        must = [keys.pub[k] for k in ks]
        if r.random() < 0.4:
            env["signatures"][gamma.junk_name(r, nonascii=False, surrogates=False)] = copy.deepcopy(r.choice(gamma.JUNK_VALUES))
        auth = list(must) + [keys.pub[k] for k in range(1, NK + 1) if k not in ks and r.random() < 0.2]
        r.shuffle(auth)
        thr = r.randint(1, len(ks))
        out, exc, _ = lib.call(fn, env, auth, thr, gpg=False)
        ev = alpha_call(env, auth, thr, False, out, must=must)
        if ev is None:
            continue
        run.evaluations += 1
        traces.append({"id": tid, "events": [ev]})
        conc[tid] = [{"envelope": env, "authorized": auth, "threshold": thr, "gpg": False, "observed": out, "exc": exc}]
    judge(run, traces, conc, owner, label="library-signed")
    run.extra["library_signed_envelopes"] = len(traces)


def library_signed_big(run, n, owner):
    """Scale for the signing round trip: one payload signed by the library with up to 1200 keys, forward and in reverse
    order (the two envelopes must be equal and serialise identically); thresholds 1, N-1, N, N+1 over all signers and
    threshold 1 over single signers taken from both ends of the insertion order; judged by Trace_Verify (NK = 1400)."""
    signing, common = lib.cct("signing"), lib.cct("common")
    fn = lib.cct("authentication").verify_signable
    keys = gamma.Keys(1200, run.seed, offset=7000)
    r = random.Random(run.seed * 59 + 3)
    traces, conc = [], {}
    LIMITS.update(BIG)
    try:
        for tid in range(1, n + 1):
            P, _ = gamma.make_payloads(r)
            N = [1030, 129, 1001, 1200, 1000, 300][(tid - 1) % 6]
            ks = r.sample(range(1, 1201), N)
            fwd, bwd = signing.wrap_as_signable(P), signing.wrap_as_signable(copy.deepcopy(P))
            for k in ks:
                signing.sign_signable(fwd, common.PrivateKey.from_bytes(keys.seeds[k]))
            for k in reversed(ks):
                signing.sign_signable(bwd, common.PrivateKey.from_bytes(keys.seeds[k]))
            if fwd != bwd or twin_canon(fwd) != twin_canon(bwd):
                run.violation("signing by many keys in two orders gives different envelopes",
                              {"kind": "sign_order_big", "signers": N, "payload": P})
            all_auth = [keys.pub[k] for k in ks]
            calls = [(fwd, all_auth, t) for t in (1, N - 1, N, N + 1)] + [(bwd, all_auth, N)]
            for k in (ks[0], ks[-1], ks[N // 2]):
                calls += [(fwd, [keys.pub[k]], 1), (bwd, [keys.pub[k]], 1)]
            for env, auth, thr in calls:
                out, exc, _ = lib.call(fn, env, list(auth), thr, gpg=False)
                run.evaluations += 1
                ev = alpha_call(env, auth, thr, False, out, must=auth)
                if ev:
                    traces.append({"id": len(traces) + 1, "events": [ev]})
                    conc[len(traces)] = [{"note": f"payload signed by the library with {N} keys ({'forward' if env is fwd else 'reverse'} order); "
                                                  f"{len(auth)} of them authorized, threshold {thr}", "payload": P, "observed": out, "exc": exc}]
    finally:
        LIMITS.update({"NK": NK, "NA": NA, "NJ": NJ})
    if traces:
        seen = validate(run, traces, cfg="Trace_Verify_big.cfg")
        for t in traces:
            line = seen[(t["id"], 1)]
            ev = t["events"][0]
            run._distinct.add("libbig%d" % t["id"])
            if line["ok"]:
                run.traces_validated += 1
            else:
                o = {"observed": ev["outcome"], "allowed": line["allowed"], "must_ok": line.get("must_ok", True)}
                if owner(o):
                    run.violation(f"many signers: verify_signable allowed={'|'.join(line['allowed'])} observed={ev['outcome']} must_ok={o['must_ok']}",
                                  {"kind": "library_signed_big", "concrete": conc[t["id"]][0], "allowed": line["allowed"]})
    run.extra["library_signed_big_calls"] = len(traces)


def inplace_histories(run, n, owner):
    """Histories on ONE envelope object: verify, edit the payload in place, re-sign (library signer or an independent
    one), verify again ... every call judged from its own arguments."""
    signing, common = lib.cct("signing"), lib.cct("common")
    fn = lib.cct("authentication").verify_signable
    keys = gamma.Keys(NK, run.seed, offset=250)
    r = random.Random(run.seed * 37 + 11)
    traces, conc = [], {}
    for tid in range(1, n + 1):
        P, Q = gamma.make_payloads(r)
        if not isinstance(P, dict):
            P = {"p": P}
        env = signing.wrap_as_signable(P)
        ks = r.sample(range(1, NK + 1), r.randint(1, 3))
        evs, cs = [], []

        lib_signed = set()

        def sign_all():
            for k in ks:
                if r.random() < 0.5:
                    signing.sign_signable(env, common.PrivateKey.from_bytes(keys.seeds[k]))
                    lib_signed.add(keys.pub[k])         # the library's own signer was asked to sign the CURRENT payload with k
                else:
                    env["signatures"][keys.pub[k]] = {"signature": keys.sign(k, twin_canon(env["signed"])).hex()}
        sign_all()
        for step in range(r.randint(2, 4)):
            auth = [keys.pub[k] for k in ks]
            r.shuffle(auth)
            thr = r.randint(1, len(ks))
            out, exc, _ = lib.call(fn, env, auth, thr, gpg=False)      # the SAME object every time
            run.evaluations += 1
            ev = alpha_call(env, auth, thr, False, out, must=sorted(lib_signed))
            if ev:
                evs.append(ev)
                cs.append({"envelope": copy.deepcopy(env), "authorized": auth, "threshold": thr, "gpg": False, "observed": out, "exc": exc,
                           "note": "same envelope object verified repeatedly with in-place edits and re-signing in between"})
            env["signed"]["edit-%d" % step] = r.randint(0, 9)               # in-place edit of the payload
            lib_signed.clear()
            if r.random() < 0.7:
                sign_all()                                                 # re-signed: must verify again
        if evs:
            traces.append({"id": tid, "events": evs})
            conc[tid] = cs
    judge(run, traces, conc, owner, label="in-place history")
    run.extra["inplace_histories"] = len(traces)


def fixture_traces(run, owner):
    """Signed fixtures shipped with the repository (earlier releases' signatures must stay valid)."""
    from .core import REPO
    fn = lib.cct("authentication").verify_signable

    def load(rel):
        with open(os.path.join(REPO, rel), "rb") as f:
            return json.load(f)
    calls = []   # (label, envelope, authorized, threshold, gpg)
    for d in ("tests/testdata", "demo"):
        roots = {}
        for n in (1, 2, 3):
            p = f"{d}/{n}.root.json"
            if os.path.exists(os.path.join(REPO, p)):
                roots[n] = load(p)
        for n, md in roots.items():
            own = md["signed"]["delegations"]["root"]
            calls.append((f"{d}/{n}.root.json under its own root rule", md, own["pubkeys"], own["threshold"], True))
            if n - 1 in roots:
                prev = roots[n - 1]["signed"]["delegations"]["root"]
                calls.append((f"{d}/{n}.root.json under {n-1}.root.json's root rule", md, prev["pubkeys"], prev["threshold"], True))
        km = f"{d}/key_mgr.json"
        if os.path.exists(os.path.join(REPO, km)) and roots:
            for n, md in roots.items():
                rule = md["signed"]["delegations"].get("key_mgr")
                if rule:
                    calls.append((f"{km} under {n}.root.json's key_mgr rule", load(km), rule["pubkeys"], rule["threshold"], False))
    rp = "tests/testdata/repodata_short_signed_sample.json"
    if os.path.exists(os.path.join(REPO, rp)):
        rd = load(rp)
        for art, sigs in rd.get("signatures", {}).items():
            mdv = rd.get("packages", {}).get(art, rd.get("packages.conda", {}).get(art))
            if mdv is not None and isinstance(sigs, dict) and len(sigs) <= 6:
                calls.append((f"{rp}:{art}", {"signatures": sigs, "signed": mdv}, list(sigs), 1, False))
    traces, conc = [], {}
    for tid, (label, env, auth, thr, gpg) in enumerate(calls, 1):
        out, exc, _ = lib.call(fn, copy.deepcopy(env), list(auth), thr, gpg=gpg)
        ev = alpha_call(env, auth, thr, gpg, out)
        if ev is None:
            continue
        run.evaluations += 1
        traces.append({"id": tid, "events": [ev]})
        conc[tid] = [{"label": label, "envelope": env, "authorized": auth, "threshold": thr, "gpg": gpg, "observed": out, "exc": exc}]
    judge(run, traces, conc, owner, label="fixture")
    run.extra["fixture_calls"] = [c[0] for c in calls]


def big_envelopes(run, n, owner):
    """Scale: envelopes with up to 150 authorized keys, thresholds up to the number of keys, up to 400 junk entries and up
    to 1100 entries under well-formed keys that are NOT authorized (each a genuinely valid signature by that foreign
    key), in shuffled / fillers-first / fillers-last insertion order, sometimes with a 40 kB OpenPGP header; judged by
    Trace_Verify.tla instantiated with NK = 1400, NJ = 400."""
    fn = lib.cct("authentication").verify_signable
    keys = gamma.Keys(150, run.seed, offset=2000)
    foreign = gamma.Keys(1100, run.seed, offset=5000)
    r = random.Random(run.seed * 53 + 29)
    traces, conc = [], {}
    long_hdr = b"\x04\x00\x16\x08" + bytes(range(256)) * 157
    LIMITS.update(BIG)
    try:
        for tid in range(1, n + 1):
            P, _ = gamma.make_payloads(r)
            Pb = twin_canon(P)
            nk = r.choice([1, 9, 33, 64, 65, 127, 128, 129, 150])
            ks = r.sample(range(1, 151), nk)
            gpg = r.random() < 0.5
            hdr = long_hdr if r.random() < 0.15 else r.choice(gamma.HEADERS)
            nvalid = r.choice([0, 1, nk // 2, nk - 1, nk])
            valid = set(r.sample(ks, nvalid))

            def good(kk, k):
                return ({"other_headers": hdr.hex(), "signature": kk.sign(k, crypto.gpg_digest(Pb, hdr)).hex()} if gpg
                        else {"signature": kk.sign(k, Pb).hex()})
            own = []
            for k in ks:
                if k in valid:
                    own.append((keys.pub[k], good(keys, k)))
                elif r.random() < 0.5:
                    own.append((keys.pub[k], {"signature": gamma.flip_bit(keys.sign(k, Pb), r).hex()}))
            fill = []
            for j in range(r.choice([0, 10, 255, 256, 300])):
                fill.append(("junk-%d-%s" % (j, "x" * (j % 7)), r.choice([{"signature": "0" * 128}, "x", None, j])))
            nforeign = r.choice([0, 0, 3, 257, 300, 1001, 1100]) if tid > 3 else [257, 1100, 1001][tid - 1]
            for j in r.sample(range(1, 1101), nforeign):
                fill.append((foreign.pub[j], good(foreign, j)))
            order = r.choice(["shuffled", "fillers_first", "fillers_last"])
            r.shuffle(own)
            r.shuffle(fill)
            items = own + fill
            if order == "shuffled":
                r.shuffle(items)
            elif order == "fillers_first":
                items = fill + own
            env = {"signatures": dict(items), "signed": P}
            auth = [keys.pub[k] for k in ks]
            r.shuffle(auth)
            for thr in sorted({1, max(1, nvalid), nvalid + 1, nk}):
                out, exc, _ = lib.call(fn, env, list(auth), thr, gpg=gpg)
                run.evaluations += 1
                ev = alpha_call(env, auth, thr, gpg, out)
                if ev:
                    traces.append({"id": len(traces) + 1, "events": [ev]})
                    conc[len(traces)] = [{"note": f"{nk} authorized keys, {nvalid} valid signers, {len(items)} entries ({nforeign} validly signed by keys that are "
                                                  f"not authorized, order {order}), header of {len(hdr)} bytes, threshold {thr}, gpg={gpg}", "observed": out, "exc": exc}]
    finally:
        LIMITS.update({"NK": NK, "NA": NA, "NJ": NJ})
    if traces:
        seen = validate(run, traces, cfg="Trace_Verify_big.cfg")
        for t in traces:
            line = seen[(t["id"], 1)]
            ev = t["events"][0]
            run._distinct.add("big%d" % t["id"])
            if line["ok"]:
                run.traces_validated += 1
            else:
                o = {"observed": ev["outcome"], "allowed": line["allowed"], "must_ok": True}
                if owner(o):
                    run.violation(f"large envelope: verify_signable gpg={ev['gpg']} allowed={'|'.join(line['allowed'])} observed={ev['outcome']}",
                                  {"kind": "verify_signable_big", "concrete": conc[t["id"]][0], "allowed": line["allowed"]})
    run.extra["big_envelope_calls"] = len(traces)
