"""Signers and digests that are independent of the library under verification.

* `ed25519_ref_*`: pure-Python RFC 8032 (section 5.1 / 6), checked against the RFC's test vectors by
  `selfcheck()`; slow (a few ms per operation), used for a rotating subset and for C19.
* `fast_sign` / `fast_public`: pyca/cryptography called directly (never through conda_content_trust).
* `gpg_digest_input`: RFC 4880 section 5.2.4 v4 framing, written from the RFC, plus impostor framings.
"""
from __future__ import annotations

import hashlib
import struct

from cryptography.hazmat.primitives.asymmetric.ed25519 import Ed25519PrivateKey
from cryptography.hazmat.primitives import serialization as _ser

# ---------------------------------------------------------------- RFC 8032 reference
_p = 2 ** 255 - 19
_L = 2 ** 252 + 27742317777372353535851937790883648493
_d = -121665 * pow(121666, _p - 2, _p) % _p


def _inv(x):
    return pow(x, _p - 2, _p)


def _add(P, Q):
    A = (P[1] - P[0]) * (Q[1] - Q[0]) % _p
    B = (P[1] + P[0]) * (Q[1] + Q[0]) % _p
    C = 2 * P[3] * Q[3] * _d % _p
    D = 2 * P[2] * Q[2] % _p
    E, F, G, H = B - A, D - C, D + C, B + A
    return (E * F % _p, G * H % _p, F * G % _p, E * H % _p)


def _mul(s, P):
    Q = (0, 1, 1, 0)
    while s > 0:
        if s & 1:
            Q = _add(Q, P)
        P = _add(P, P)
        s >>= 1
    return Q


def _recover_x(y, sign):
    if y >= _p:
        return None
    x2 = (y * y - 1) * _inv(_d * y * y + 1) % _p
    if x2 == 0:
        return None if sign else 0
    x = pow(x2, (_p + 3) // 8, _p)
    if (x * x - x2) % _p != 0:
        x = x * pow(2, (_p - 1) // 4, _p) % _p
    if (x * x - x2) % _p != 0:
        return None
    if (x & 1) != sign:
        x = _p - x
    return x


_gy = 4 * _inv(5) % _p
_gx = _recover_x(_gy, 0)
_G = (_gx, _gy, 1, _gx * _gy % _p)


def _compress(P):
    zinv = _inv(P[2])
    x, y = P[0] * zinv % _p, P[1] * zinv % _p
    return int.to_bytes(y | ((x & 1) << 255), 32, "little")


def _decompress(s):
    if len(s) != 32:
        return None
    y = int.from_bytes(s, "little")
    sign = y >> 255
    y &= (1 << 255) - 1
    x = _recover_x(y, sign)
    if x is None:
        return None
    return (x, y, 1, x * y % _p)


def _expand(seed):
    h = hashlib.sha512(seed).digest()
    a = int.from_bytes(h[:32], "little")
    a &= (1 << 254) - 8
    a |= 1 << 254
    return a, h[32:]


def ed25519_ref_public(seed: bytes) -> bytes:
    a, _ = _expand(seed)
    return _compress(_mul(a, _G))


def ed25519_ref_sign(seed: bytes, msg: bytes) -> bytes:
    a, prefix = _expand(seed)
    A = _compress(_mul(a, _G))
    r = int.from_bytes(hashlib.sha512(prefix + msg).digest(), "little") % _L
    Rs = _compress(_mul(r, _G))
    h = int.from_bytes(hashlib.sha512(Rs + A + msg).digest(), "little") % _L
    s = (r + h * a) % _L
    return Rs + int.to_bytes(s, 32, "little")


def _eq(P, Q):
    return (P[0] * Q[2] - Q[0] * P[2]) % _p == 0 and (P[1] * Q[2] - Q[1] * P[2]) % _p == 0


def ed25519_ref_verify(public: bytes, msg: bytes, sig: bytes) -> bool:
    if len(public) != 32 or len(sig) != 64:
        return False
    A = _decompress(public)
    if not A:
        return False
    Rs = sig[:32]
    R = _decompress(Rs)
    if not R:
        return False
    s = int.from_bytes(sig[32:], "little")
    if s >= _L:
        return False
    h = int.from_bytes(hashlib.sha512(Rs + public + msg).digest(), "little") % _L
    return _eq(_mul(s, _G), _add(R, _mul(h, A)))


RFC8032_VECTORS = [  # (seed, public, message, signature) section 7.1 TEST 1, 2, 3
    ("9d61b19deffd5a60ba844af492ec2cc44449c5697b326919703bac031cae7f60",
     "d75a980182b10ab7d54bfed3c964073a0ee172f3daa62325af021a68f707511a", "",
     "e5564300c360ac729086e2cc806e828a84877f1eb8e5d974d873e065224901555fb8821590a33bacc61e39701cf9b46b"
     "d25bf5f0595bbe24655141438e7a100b"),
    ("4ccd089b28ff96da9db6c346ec114e0f5b8a319f35aba624da8cf6ed4fb8a6fb",
     "3d4017c3e843895a92b70aa74d1b7ebc9c982ccf2ec4968cc0cd55f12af4660c", "72",
     "92a009a9f0d4cab8720e820b5f642540a2b27b5416503f8fb3762223ebdb69da085ac1e43e15996e458f3613d0f11d8c"
     "387b2eaeb4302aeeb00d291612bb0c00"),
    ("c5aa8df43f9f837bedb7442f31dcb7b166d38535076f094b85ce3a2e0b4458f7",
     "fc51cd8e6218a1a38da47ed00230f0580816ed13ba3303ac5deb911548908025", "af82",
     "6291d657deec24024827e69c3abe01a30ce548a284743a445e3680d7db5ac3ac18ff9b538d16f290ae67f760984dc659"
     "4a7c15e9716ed28dc027beceea1ec40a"),
]


def selfcheck() -> None:
    for seed, pub, msg, sig in RFC8032_VECTORS:
        s, m = bytes.fromhex(seed), bytes.fromhex(msg)
        assert ed25519_ref_public(s).hex() == pub, "RFC 8032 public key vector"
        assert ed25519_ref_sign(s, m).hex() == sig, "RFC 8032 signature vector"
        assert ed25519_ref_verify(bytes.fromhex(pub), m, bytes.fromhex(sig))
        assert not ed25519_ref_verify(bytes.fromhex(pub), m + b"x", bytes.fromhex(sig))
        assert fast_public(s).hex() == pub and fast_sign(s, m).hex() == sig


# ---------------------------------------------------------------- pyca/cryptography, called directly
def fast_public(seed: bytes) -> bytes:
    return Ed25519PrivateKey.from_private_bytes(seed).public_key().public_bytes(
        _ser.Encoding.Raw, _ser.PublicFormat.Raw)


def fast_sign(seed: bytes, msg: bytes) -> bytes:
    return Ed25519PrivateKey.from_private_bytes(seed).sign(msg)


# ---------------------------------------------------------------- OpenPGP v4 framing (RFC 4880 5.2.4)
def gpg_digest_input(data: bytes, hdr: bytes, framing: str = "rfc") -> bytes:
    n = len(hdr)
    if framing == "rfc":
        return data + hdr + b"\x04\xff" + struct.pack(">I", n & 0xFFFFFFFF)
    if framing == "notrailer":
        return data + hdr
    if framing == "nolength":
        return data + hdr + b"\x04\xff"
    if framing == "le32":
        return data + hdr + b"\x04\xff" + struct.pack("<I", n & 0xFFFFFFFF)
    if framing == "be16":
        return data + hdr + b"\x04\xff" + struct.pack(">H", n & 0xFFFF)
    if framing == "v3":
        return data + hdr + b"\x03\xff" + struct.pack(">I", n & 0xFFFFFFFF)
    if framing == "hdrfirst":
        return hdr + data + b"\x04\xff" + struct.pack(">I", n & 0xFFFFFFFF)
    raise ValueError(framing)


def gpg_digest(data: bytes, hdr: bytes, framing: str = "rfc", algo: str = "sha256") -> bytes:
    return hashlib.new(algo, gpg_digest_input(data, hdr, framing)).digest()


def gpg_sign(seed: bytes, data: bytes, hdr: bytes, framing: str = "rfc", algo: str = "sha256",
             ref: bool = False) -> bytes:
    dg = gpg_digest(data, hdr, framing, algo)
    return ed25519_ref_sign(seed, dg) if ref else fast_sign(seed, dg)


DEFAULT_HDR = bytes.fromhex("04001608001d162104f075dd2f6f4cb3bd76134bbb81b6ca16ef9cd58905025f0bf546")


# Pairs of genuine key pairs whose PUBLIC values coincide in 32 bits (found once by a birthday search over sha256("cctverif-related-<i>") seeds):
# distinct keys are distinct however much of their spelling they share - nothing may identify a key by a prefix, a suffix or a "short id".
RELATED_SEED_INDEX = {"suffix": (38011, 122440), "prefix": (42861, 140010)}


def related_seeds(kind: str):
    a, b = RELATED_SEED_INDEX[kind]
    return hashlib.sha256(b"cctverif-related-%d" % a).digest(), hashlib.sha256(b"cctverif-related-%d" % b).digest()


def seed_for(i: int, run_seed: int = 0) -> bytes:
    return hashlib.sha256(b"cctverif-key-%d-%d" % (i, run_seed)).digest()
