"""C01 Threshold soundness (DESIGN section 6, C01)."""
from __future__ import annotations

from .. import verify_engine as ve
from .. import traces_verify

LEVEL = "model_checking"
SOUND_MUTANTS = ["noauth", "altname", "nopayload", "nosigner", "anyframing", "offbyone", "noshape"]


def owns(o):
    """C01 owns: the code accepts although `accept` is not allowed."""
    return o["observed"] == "accept" and "accept" not in o["allowed"]


def check(run):
    quick = run.tier == "quick"
    run.rule = ("TLC enumerates every initial state of Verify.tla (per-key entry state x alt-spelling entry x junk entry x "
                "authorized subset x threshold x mode); each is concretised with real keys/signatures and run through "
                "verify_signable; distinct = distinct abstract cases, non-trivial = signature map not empty; "
                "plus seeded random adversarial envelopes validated by Trace_Verify.tla")
    # 1. the design: all examination orders, every invariant
    run.tlc("Verify", "Verify_quick.cfg", timeout=900)
    if not quick:
        run.tlc("Verify", "Verify_live.cfg", timeout=900)
    # 2. non-vacuity: each spec mutant must be killed by Sound
    for m in (SOUND_MUTANTS[:3] if quick else SOUND_MUTANTS):
        run.mutant("Verify", f"Verify_mut_{m}.cfg", expect="Sound", timeout=600)
    # 3. spec -> code replay
    r = run.tlc("Verify", "Verify_emit_quick.cfg" if quick else "Verify_emit_thorough.cfg",
                raw_cases=True, expect_cases=True, timeout=3000)
    bad = ve.replay(run, r, opts={"strip": False})
    run.exhaustive = True
    for o in bad:
        if owns(o):
            run.violation(ve.coarse_sig(o), {"kind": "verify_signable", "fine_signature": ve.sig_of(o), **o})
        else:
            run.note_drift("outside Allowed but owned by another property: " + ve.coarse_sig(o))
    # 3b. every kind of value given as threshold (positive integer, integer + fraction, zero, negative, string, null, list)
    run.mutant("Verify", "Verify_mut_thr_truncated.cfg", expect="MalformedNeverAccepted", timeout=600)
    rt = run.tlc("Verify", "Verify_emit_thr.cfg", raw_cases=True, expect_cases=True, timeout=3000)
    for o in ve.replay(run, rt, opts={"strip": False}):
        if owns(o):
            run.violation(ve.coarse_sig(o) + f" threshold-kind={o['case'].get('tk')}", {"kind": "verify_signable", "fine_signature": ve.sig_of(o), **o})
        else:
            run.note_drift("outside Allowed but owned by another property: " + ve.coarse_sig(o))
    # 3c. the stream the notices go to is dead (Verify.tla, `out`): the call may end in an I/O error, nothing else changes
    run.mutant("Verify", "Verify_mut_dead_stream.cfg", expect="Sound", timeout=600)
    ro = run.tlc("Verify", "Verify_emit_out.cfg", raw_cases=True, expect_cases=True, timeout=3000)
    for o in ve.replay(run, ro, opts={"strip": False}):
        if owns(o):
            run.violation(ve.coarse_sig(o), {"kind": "verify_signable", "fine_signature": ve.sig_of(o), **o})
        else:
            run.note_drift("outside Allowed but owned by another property: " + ve.coarse_sig(o))
    # 4. code -> spec traces: random adversarial envelopes judged by TLC
    traces_verify.random_traces(run, n=2000 if quick else 50000, owner=owns)
    traces_verify.big_envelopes(run, n=12 if quick else 200, owner=owns)


def replay(payload):
    from .. import lib
    c = payload["concrete"]
    out, exc, printed = lib.call(lib.cct("authentication").verify_signable, c["envelope"], c["authorized"],
                                 c["threshold"], gpg=c["gpg"], encoding=payload.get("encoding", "utf-8"))
    print(f"observed={out} exc={exc} allowed={payload['allowed']}")
    bad = out == "accept" and "accept" not in payload["allowed"]
    if bad:
        print(f"VIOLATION property=C01 replay=(this file)")
    return 1 if bad else 0
