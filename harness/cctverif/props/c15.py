"""C15 Leaf format validators decide exact grammars; one spelling per key."""
from __future__ import annotations

import copy
import hashlib
import random

from .. import lib, twins
from ..tlc import MachineryFailure

LEVEL = "model_checking"

CLASS_CHARS = {
    "d": "0123456789", "l": "abcdef", "U": "ABCDEF", "g": "ghijklmnopqrstuvwxyz", "G": "GHIJKLMNOPQRSTUVWXYZ",
    "w": " \t\n\r\x0b\x0c", "nd": "٠١٢٣٤٥٦٧٨٩０１２３４５６７８９०१२३߀", "nl": "éèüßабвαβγａｂｃｄｅｆÀÁ",
    "p": "-_:.,;/+=!?#%&*()[]{}<>|~^`'\"\\@$", "s": "\ud800􏰀\udfff", "z": "\x00",
}
NONSTRINGS = [None, 5, 0, 1.5, True, b"ab" * 32, bytearray(b"ab" * 32), ["ab" * 32], ("ab" * 32,), {"ab" * 32: 1}, {"ab"}, b"\xab" * 32, 64, object,
              # containers of single hex characters, of every length a hex grammar asks for
              list("0a"), list("0a" * 20), list("0a" * 32), list("0a" * 64), tuple("0a" * 32), dict.fromkeys("0123456789abcdef"), dict.fromkeys("04"),
              {"%02d" % i: None for i in range(40)}, set("0a"), frozenset("0123456789abcdef"), ["0a"] * 32, b"0a" * 20, bytearray(b"0a" * 64)]


def concrete(classes, r):
    return "".join(r.choice(CLASS_CHARS[c]) for c in classes)


def raises(fn, x):
    try:
        fn(x)
        return None
    except Exception as e:  # noqa: BLE001
        return e


def check(run):
    quick = run.tier == "quick"
    c = lib.cct("common")
    run.rule = ("Formats.tla enumerates every template (13 boundary lengths x up to two deviations at first/middle/last position by "
                "substitution or insertion of any of 11 character classes), every signature-entry shape (container x signature x "
                "headers x fingerprint x extra field) and every key list of <= 3 elements over {A, B, spellings of A, non-string}; "
                "each template is instantiated with random characters of the classes (3 per template; thorough 10) and passed to every "
                "is_*/checkformat_* pair; distinct = distinct templates/shapes, non-trivial = at least one deviation or non-canonical field")
    for m, exp in {"upper_ok": "ASSUME", "ws_ok": "ASSUME", "len_le": "OnlyExactLengths"}.items():
        run.mutant("Formats", f"Formats_mut_{m}.cfg", expect=exp, timeout=600)
    r = run.tlc("Formats", "Formats.cfg", expect_cases=True, timeout=1800)
    rr = random.Random(run.seed)
    per = 3 if quick else 10
    pairs = [("hexstring", c.is_hex_string, c.checkformat_hex_string, twins.twin_is_hex),
             ("key", c.is_hex_key, c.checkformat_hex_key, twins.twin_is_hex_key),
             ("sig", c.is_hex_signature, None, twins.twin_is_hex_sig),
             ("fp", c.is_gpg_fingerprint, c.checkformat_gpg_fingerprint, twins.twin_is_fingerprint),
             # the key constructors are consumers of the key grammar too: a key object exists for exactly the strings the grammar accepts
             ("key", lambda x: raises(c.PublicKey.from_hex, x) is None, c.PublicKey.from_hex, twins.twin_is_hex_key),
             ("key", lambda x: raises(c.PrivateKey.from_hex, x) is None, c.PrivateKey.from_hex, twins.twin_is_hex_key)]
    keyA, keyB = "0a" * 32, "1b" * 32
    elems = {"A": keyA, "B": keyB, "A_upper": keyA.upper(), "A_padded": keyA + " ", "A_0x": "0x" + keyA, "nonstr": 7}
    good_sig = "0a1b" * 32

    def viol(what, detail):
        run.violation(what, {"kind": "formats", **detail})

    for case in r.cases:
        nontrivial = True
        if case["kind"] == "string":
            t = case["t"]
            nontrivial = t["d1"]["op"] != "none"
            for _ in range(per):
                s = concrete(case["classes"], rr)
                for name, pred, chk, twin in pairs:
                    want = case[name]
                    if twin(s) != want:
                        raise MachineryFailure(f"twin {name} disagrees with Formats.tla on {s!r}")
                    got = pred(s)
                    run.evaluations += 1
                    dev = f"len={t['len']} d1={t['d1']['op']}:{t['d1']['cls'] if t['d1']['op'] != 'none' else '-'} d2={t['d2']['op']}:{t['d2']['cls'] if t['d2']['op'] != 'none' else '-'}"
                    if got is not want:
                        viol(f"is-{name} validator {'accepts' if got else 'rejects'} a string the grammar {'rejects' if got else 'accepts'} ({dev})",
                             {"string": s, "validator": name, "template": t})
                    if chk is not None:
                        ex = raises(chk, s)
                        run.evaluations += 1
                        if (ex is None) != bool(got):
                            viol(f"predicate and raising form of the {name} validator disagree ({dev})", {"string": s, "validator": name})
                        if ex is not None and not isinstance(ex, (TypeError, ValueError)):
                            viol(f"checkformat for {name} raised {type(ex).__name__}", {"string": s, "validator": name})
        elif case["kind"] == "long":
            t = case["t"]
            d = t["d1"]
            nontrivial = d["op"] != "none"
            n = t["len"]
            chars = [rr.choice(CLASS_CHARS["d"]), rr.choice(CLASS_CHARS["l"])]
            s = (chars[0] + chars[1]) * (n // 2) + (chars[0] if n % 2 else "")
            if d["op"] != "none":
                i = {"first": 1, "last": n, "middle": n // 2 + 1, "at65536": 65536, "at65537": 65537, "at100": 100}[d["pos"]]
                i = min(i, n)
                ch = rr.choice(CLASS_CHARS[d["cls"]])
                s = s[:i - 1] + ch + (s[i:] if d["op"] == "sub" else s[i - 1:])
            want = case["hexstring"]
            if twins.twin_is_hex(s) != want:
                raise MachineryFailure(f"twin hexstring disagrees with Formats.tla's closed form on a long string ({t})")
            dev = f"len={n} d1={d['op']}:{d['cls'] if d['op'] != 'none' else '-'}@{d['pos'] if d['op'] != 'none' else '-'}"
            got, ex = c.is_hex_string(s), raises(c.checkformat_hex_string, s)
            run.evaluations += 2
            if got is not want or (ex is None) is not want:
                viol(f"hexstring validator {'accepts' if (got or ex is None) else 'rejects'} a long string the grammar {'rejects' if not want else 'accepts'} ({dev})",
                     {"validator": "hexstring", "template": t, "string_head": s[:80]})
            ent = {"other_headers": s, "signature": good_sig}
            for name, pred, chk in (("gpg (is_gpg_signature)", c.is_gpg_signature, c.checkformat_gpg_signature),
                                    ("raw-or-gpg (is_signature)", c.is_signature, c.checkformat_signature),
                                    ("any (checkformat_any_signature)", None, c.checkformat_any_signature)):
                acc = raises(chk, ent) is None
                run.evaluations += 1
                if acc is not want or (pred is not None and pred(ent) is not want):
                    viol(f"{name}: entry with long other_headers {'accepted' if acc else 'rejected'} but the grammar {'rejects' if not want else 'accepts'} it ({dev})",
                         {"template": t, "string_head": s[:80]})
        elif case["kind"] == "entry":
            e = case["e"]
            nontrivial = not (case["raw"] or case["gpg"])
            d = {}
            sv = {"good": good_sig, "upper": good_sig.upper(), "short": good_sig[:-2], "long": good_sig + "00", "nonstr": 5}
            hv = {"good": rr.choice(["04001608", "ab", "00" * 300]), "odd": "abc", "empty": "", "upper": "AB", "nonhex": "zz", "nonstr": ["ab"]}
            fv = {"good": "f0" * 20, "short": "f0" * 19 + "f", "long": "f0" * 20 + "0", "short_even": rr.choice(["f0" * 19, "f0", "f0" * 16]),
                  "long_even": rr.choice(["f0" * 21, "f0" * 32, "f0" * 40]), "upper": "F0" * 20, "nonstr": 40,
                  "falsy": rr.choice(["", None, 0, [], {}, False, 0.0])}
            if e["sig"] != "absent":
                d["signature"] = sv[e["sig"]]
            if e["hdr"] != "absent":
                d["other_headers"] = hv[e["hdr"]]
            if e["fp"] != "absent":
                d["see_also"] = fv[e["fp"]]
            if e["extra"]:
                d[rr.choice(["extra", "keyid", "gpg_key_fingerprint", ""])] = rr.choice([1, "x", None])
            val = {"dict": d, "list": [d], "str": good_sig, "null": None, "int": 7}[e["c"]]
            if e["c"] != "dict" and (e["sig"], e["hdr"], e["fp"], e["extra"]) != ("good", "absent", "absent", False):
                continue    # non-dict containers: one representative is enough
            checks = [("raw-or-gpg (is_signature)", c.is_signature, c.checkformat_signature, case["any"], twins.twin_is_any_entry),
                      ("gpg (is_gpg_signature)", c.is_gpg_signature, c.checkformat_gpg_signature, case["gpg"], twins.twin_is_gpg_entry),
                      ("any (checkformat_any_signature)", None, c.checkformat_any_signature, case["any"], twins.twin_is_any_entry)]
            for name, pred, chk, want, twin in checks:
                if twin(val) != want:
                    raise MachineryFailure(f"twin {name} disagrees with Formats.tla on {val!r}")
                snapshot = copy.deepcopy(val)
                got = pred(val) if pred else None
                ex = raises(chk, val)
                run.evaluations += 2
                acc = ex is None
                shape = f"container={e['c']} signature={e['sig']} other_headers={e['hdr']} see_also={e['fp']} extra={e['extra']}"
                if acc is not want:
                    viol(f"{name}: entry {'accepted' if acc else 'rejected'} but the grammar {'rejects' if acc else 'accepts'} it ({shape})", {"entry": repr(val)})
                if pred and got is not acc:
                    viol(f"{name}: predicate and raising form disagree ({shape})", {"entry": repr(val)})
                if ex is not None and not isinstance(ex, (TypeError, ValueError)):
                    viol(f"{name}: raised {type(ex).__name__} ({shape})", {"entry": repr(val)})
                if val != snapshot:
                    viol(f"{name}: validator modified its argument", {"entry": repr(snapshot)})
        else:
            lst = [elems[x] for x in case["l"]]
            nontrivial = len(lst) > 0
            ex = raises(c.checkformat_list_of_hex_keys, list(lst))
            run.evaluations += 1
            if (ex is None) is not case["nodup"]:
                viol(f"key-list validator {'accepts' if ex is None else 'rejects'} a list the grammar {'rejects' if ex is None else 'accepts'} (elements {case['l']})",
                     {"list": repr(lst)})
            if ex is not None and not isinstance(ex, (TypeError, ValueError)):
                viol(f"key-list validator raised {type(ex).__name__}", {"list": repr(lst)})
        if nontrivial:
            run._distinct.add(hashlib.sha256(repr(sorted(case.items(), key=str)).encode()).hexdigest()[:16])
        run.traces_validated += 1
        if case["kind"] == "string" and case["key"]:
            run.sample({"template": case["t"], "classes": "".join(x[0] for x in case["classes"])[:80], "expected": {k: case[k] for k in ("key", "sig", "fp", "hexstring")}}, cap=2)
    # the grammars are functions of the string alone - not of the clock: OpenPGP headers carry a signature-creation time, fingerprints and keys
    # nothing at all; every validator again with the clock frozen in 1970, at each creation time that occurs (just before / after) and in 2100
    from .. import gamma
    from ..fakeclock import FakeClock
    hdr_times = sorted({int.from_bytes(h[i + 2:i + 6], "big") for h in gamma.HEADERS for i in range(len(h) - 6) if h[i:i + 2] == b"\x05\x02"})
    probes = [(nm, pred, chk, x) for nm, pred, chk, x in
              [("hexstring", c.is_hex_string, c.checkformat_hex_string, "0502ffffffff"), ("hexstring", c.is_hex_string, c.checkformat_hex_string, "05027fffffff"),
               ("key", c.is_hex_key, c.checkformat_hex_key, keyA), ("fp", c.is_gpg_fingerprint, c.checkformat_gpg_fingerprint, "f0" * 20),
               ("sig", c.is_hex_signature, None, good_sig)]]
    for h in gamma.HEADERS + [bytes.fromhex("0502ffffffff"), bytes.fromhex("04001608" + "0502" + "7ffffff0")]:
        ent = {"other_headers": h.hex(), "signature": good_sig}
        probes += [("gpg entry", c.is_gpg_signature, c.checkformat_gpg_signature, ent), ("any entry", c.is_signature, c.checkformat_signature, ent),
                   ("any entry", None, c.checkformat_any_signature, ent), ("gpg entry", c.is_gpg_signature, c.checkformat_gpg_signature, dict(ent, see_also="f0" * 20))]
    base = [(pred(x) if pred else None, raises(chk, x) is None if chk else None) for nm, pred, chk, x in probes]
    clock = FakeClock()
    nclk = 0
    try:
        for inst in [0, 1, 86400 * 365] + [t + d for t in hdr_times for d in (-30, -1, 0, 1)] + [2 ** 31 - 1, 2 ** 31, 4102444800, 2 ** 32 - 1, 2 ** 32 + 5]:
            clock.set_epoch(inst)
            for (nm, pred, chk, x), b in zip(probes, base):
                got = (pred(x) if pred else None, raises(chk, x) is None if chk else None)
                run.evaluations += 1
                nclk += 1
                if got != b:
                    viol(f"{nm} validator: the verdict on one and the same value changes with the clock", {"value": repr(x)[:200], "clock": inst, "real_clock": b, "fake_clock": got})
    finally:
        clock.close()
    run.extra["clock_probes"] = nclk
    # non-string values in every validator
    for x in NONSTRINGS:
        for name, pred, chk, twin in pairs:
            got = pred(x)
            run.evaluations += 1
            if got:
                viol(f"is-{name} validator accepts a non-string value of type {type(x).__name__}", {"value": repr(x)})
            if chk is not None:
                ex = raises(chk, x)
                if ex is None:
                    viol(f"checkformat for {name} accepts a non-string value of type {type(x).__name__}", {"value": repr(x)})
                elif not isinstance(ex, (TypeError, ValueError)):
                    viol(f"checkformat for {name} raised {type(ex).__name__} on a {type(x).__name__}", {"value": repr(x)})
    run.exhaustive = True
    run.assumptions.append("exhaustive over templates / character classes; concrete characters are sampled within each class (exploration within a class)")


def replay(payload):
    c = lib.cct("common")
    if "string" in payload:
        s = payload["string"]
        print({"key": c.is_hex_key(s), "sig": c.is_hex_signature(s), "fp": c.is_gpg_fingerprint(s), "hex": c.is_hex_string(s)},
              {"key": twins.twin_is_hex_key(s), "sig": twins.twin_is_hex_sig(s), "fp": twins.twin_is_fingerprint(s), "hex": twins.twin_is_hex(s)})
        bad = (c.is_hex_key(s), c.is_hex_signature(s), c.is_gpg_fingerprint(s), c.is_hex_string(s)) != \
              (twins.twin_is_hex_key(s), twins.twin_is_hex_sig(s), twins.twin_is_fingerprint(s), twins.twin_is_hex(s))
        if bad:
            print("VIOLATION property=C15 replay=(this file)")
        return 1 if bad else 0
    print("re-run ./check C15")
    return 0
