"""C10 OpenPGP-wrapped signatures follow RFC 4880 v4 and interoperate with GnuPG."""
from __future__ import annotations

import copy
import hashlib
import json
import os
import random

from .. import crypto, gamma, gnupg, lib, metadata
from ..core import REPO
from ..tlc import MachineryFailure
from ..twins import twin_canon

LEVEL = "model_checking"
PAYLOAD_SIZES = [0, 1, 1000]


def check(run):
    quick = run.tier == "quick"
    auth, rs, common = lib.cct("authentication"), lib.cct("root_signing"), lib.cct("common")
    run.rule = ("Gpg.tla: RFC 4880 5.2.4 framing, injective in (data, header) on a bounded byte domain (2 mutants killed), and the table "
                "(framing x header length -> coincides with the RFC framing?); replay: header lengths {1..70000} x payload sizes x 7 "
                "framings x SHA-256/SHA-512 x corruptions (bit flips in payload, header, signature, key; truncated/extended header; swapped "
                "key) through verify_gpg_signature and verify_signable(gpg=True): accepted exactly when TLC says the signed bytes equal "
                "DigestInput(payload, header); real GnuPG signatures made by the gpg binary are transcribed by the library's own GPG "
                "signing path and must verify, every corruption must not; non-trivial = every case")
    for m in ("notrailer", "nolength"):
        run.mutant("Gpg", f"Gpg_mut_{m}.cfg", expect="ASSUME", timeout=600)
    run.mutant("Gpg", "Gpg_mut_hash.cfg", expect="HashInv", timeout=600)
    r = run.tlc("Gpg", "Gpg.cfg", expect_cases=True, timeout=900, workers=8)
    # twin cross-check on the bounded domain
    same, hash_cases = {}, []
    for c in r.cases:
        if c["kind"] == "hash":
            hash_cases.append(c)
        elif c["kind"] == "digest":
            got = crypto.gpg_digest_input(bytes(c["data"]), bytes(c["hdr"]), c["framing"])
            if got != bytes(c["bytes"]):
                raise MachineryFailure(f"harness framing {c['framing']} disagrees with Gpg.tla on {c}")
        else:
            same[(c["framing"], c["hdrlen"])] = c["same_as_rfc"]
    rr = random.Random(run.seed)
    keys = gamma.Keys(3, run.seed, offset=900)
    lens = [n for n in sorted({k[1] for k in same}) if 0 < n <= 70000]
    if not quick:
        lens = lens + [3, 100, 1000, 4096]

    def expect_valid(framing, n, algo, corruption):
        return corruption == "none" and algo == "sha256" and same.get((framing, n), framing == "rfc")

    def run_case(framing, n, psize, algo, corruption):
        hdr = bytes(rr.getrandbits(8) for _ in range(min(n, 64))) + bytes([rr.getrandbits(8)]) * max(0, n - 64)
        data = bytes(rr.getrandbits(8) for _ in range(psize)) if psize <= 1000 else rr.randbytes(psize)
        k = 1
        sig = crypto.gpg_sign(keys.seeds[k], data, hdr, framing, algo, ref=rr.random() < 0.02)
        pub = keys.pub[k]
        d2, h2, s2, p2 = data, hdr, sig, pub
        if corruption == "payload_bit" and data:
            d2 = gamma.flip_bit(data, rr)
        elif corruption == "payload_bit":
            d2 = b"\x00"
        elif corruption == "payload_tail" and data:
            d2 = data[:-1] + bytes([data[-1] ^ 0x20])
        elif corruption == "payload_tail":
            d2 = b" "
        elif corruption == "header_bit":
            h2 = gamma.flip_bit(hdr, rr)
        elif corruption == "sig_bit":
            s2 = gamma.flip_bit(sig, rr)
        elif corruption == "key_swap":
            p2 = keys.pub[2]
        elif corruption == "header_truncated":
            h2 = hdr[:-1] if len(hdr) > 1 else hdr + b"\x00"
        elif corruption == "header_extended":
            h2 = hdr + b"\x00"
        elif corruption == "payload_extended":
            d2 = data + hdr[:1]
        elif corruption == "boundary_shift" and data:
            d2, h2 = data[:-1], data[-1:] + hdr       # same concatenation, different split
        elif corruption == "boundary_shift":
            d2, h2 = hdr[:1], hdr[1:] or b"\x00"
        want = expect_valid(framing, n, algo, corruption)
        if framing == "hdrfirst" and algo == "sha256" and corruption == "none":
            want = (data + hdr == hdr + data)      # Gpg.tla, HdrFirstDiffers: coincides with the RFC framing iff data and header commute
        entry = {"other_headers": h2.hex(), "signature": s2.hex()}
        out1, exc1, _ = lib.call(auth.verify_gpg_signature, entry, p2, d2)
        run.evaluations += 1
        ok1 = out1 == "accept"
        desc = f"framing={framing} hash={algo} hdrlen={n} payload={psize} corruption={corruption}"
        if ok1 != want:
            run.violation(f"verify_gpg_signature {'accepts' if ok1 else 'rejects (' + out1 + ')'} although the signed bytes "
                          f"{'are not' if not want else 'are'} DigestInput(payload, header): {desc.rsplit(' hdrlen', 1)[0]} corruption={corruption}",
                          {"kind": "gpg", "desc": desc, "entry": entry, "key": p2, "data_hex": d2.hex()[:2000], "outcome": out1, "exc": exc1})
        elif not ok1 and out1 != "InvalidSignature":
            run.note_drift(f"verify_gpg_signature rejects with {out1} instead of InvalidSignature")
        if psize <= 1 and n <= 257:
            # through verify_signable(gpg=True): payload is a JSON value whose canonical bytes are the data
            val = {"d": d2.hex()}
            pb = twin_canon(val)
            sig3 = crypto.gpg_sign(keys.seeds[k], pb, hdr, framing, algo)
            if corruption == "sig_bit":
                sig3 = gamma.flip_bit(sig3, rr)
            env = {"signatures": {p2: {"other_headers": h2.hex() if corruption.startswith("header") else hdr.hex(), "signature": sig3.hex()}}, "signed": val}
            want3 = algo == "sha256" and same.get((framing, n), framing == "rfc") and corruption in ("none", "payload_bit", "payload_extended", "boundary_shift")
            if framing == "hdrfirst":
                want3 = False      # canonical JSON bytes never commute with a header
            out3, exc3, _ = lib.call(auth.verify_signable, env, [p2], 1, gpg=True)
            run.evaluations += 1
            if (out3 == "accept") != want3:
                run.violation(f"verify_signable(gpg=True) {'accepts' if out3 == 'accept' else 'rejects (' + out3 + ')'} contrary to the framing rule: "
                              f"framing={framing} hash={algo} corruption={corruption}", {"kind": "gpg", "desc": desc, "envelope": env, "outcome": out3})
        run._distinct.add(desc)
        if want:
            run.extra["accepting_cases"] = run.extra.get("accepting_cases", 0) + 1
        run.traces_validated += 1
        run.sample({"case": desc, "expected_valid": want, "observed": out1}, cap=4)

    framings = sorted({k[0] for k in same})
    corruptions = ["none", "payload_bit", "header_bit", "sig_bit", "key_swap", "header_truncated", "header_extended", "payload_extended", "boundary_shift"]
    for n in lens:
        for ps in PAYLOAD_SIZES:
            for f in framings:
                run_case(f, n, ps, "sha256", "none")
            run_case("rfc", n, ps, "sha512", "none")
            for c in corruptions[1:]:
                run_case("rfc", n, ps, "sha256", c)
    # scale: payloads around and beyond 1 MiB / 16 MiB block boundaries (hashing must cover every byte)
    big_sizes = [2 ** 20 - 1, 2 ** 20, 2 ** 20 + 1, 3 * 2 ** 20 + 17] + ([] if quick else [2 ** 24 + 5, 65536, 65537, 10 ** 6])
    for ps in big_sizes:
        for n in (35, 257):
            for c in ("none", "payload_tail", "payload_bit", "payload_extended", "boundary_shift", "sig_bit"):
                run_case("rfc", n, ps, "sha256", c)
            run_case("notrailer", n, ps, "sha256", "none")
    run.extra["largest_payload_bytes"] = max(big_sizes)
    # the digest algorithm is SHA-256 whatever the header's hash-algorithm octet says (Gpg.tla, HashCounts)
    octet = dict(gamma.OTHER_HASHES, sha256=8)
    for hc in hash_cases:
        for base in (crypto.DEFAULT_HDR, gamma.HEADERS[1], gamma.HEADERS[2], b"\x01\x02\x03\x04\x05"):
            for ps in (0, 1, 1000):
                data = bytes(rr.getrandbits(8) for _ in range(ps))
                if hc["named"] == "none":
                    hb = b"\x05" + base[1:]
                else:
                    hb = base[:3] + bytes([octet[hc["hash"]] if hc["named"] == "same" else 8]) + base[4:]
                sig = crypto.gpg_sign(keys.seeds[1], data, hb, "rfc", hc["hash"])
                entry = {"other_headers": hb.hex(), "signature": sig.hex()}
                out, exc, _ = lib.call(auth.verify_gpg_signature, entry, keys.pub[1], data)
                run.evaluations += 1
                desc = f"hash={hc['hash']} header names {hc['named']} payload={ps} header={hb.hex()[:12]}"
                run._distinct.add(desc)
                run.traces_validated += 1
                if (out == "accept") != hc["counts"]:
                    run.violation(f"verify_gpg_signature {'accepts' if out == 'accept' else 'rejects (' + out + ')'} a signature over the "
                                  f"{hc['hash']} digest of DigestInput(payload, header) (header's hash octet names: {hc['named']})",
                                  {"kind": "gpg", "desc": desc, "entry": entry, "key": keys.pub[1], "data_hex": data.hex(), "outcome": out, "exc": exc})
    run.extra["hash_algorithm_cases"] = len(hash_cases)
    # header content is opaque: every byte value at each of the first positions of the hashed header (version, signature
    # type, algorithms, length), with payloads that contain CR / LF / NUL / canonical JSON
    payloads = [twin_canon({"a": [1, 2], "b": "x"}), b"line1\nline2\r\nline3\rend\n", b"\x00\n\x00", b"no newline"]
    base_h = bytearray(crypto.DEFAULT_HDR)
    nsweep = 0
    for pos in range(0, 6 if quick else 12):
        for val in range(256):
            hb = bytearray(base_h)
            hb[pos] = val
            hb = bytes(hb)
            data = payloads[(pos + val) % len(payloads)]
            sig = crypto.gpg_sign(keys.seeds[1], data, hb)
            out, exc, _ = lib.call(auth.verify_gpg_signature, {"other_headers": hb.hex(), "signature": sig.hex()}, keys.pub[1], data)
            run.evaluations += 1
            nsweep += 1
            if out != "accept":
                run.violation(f"verify_gpg_signature rejects ({out}) a signature over DigestInput(payload, header) when header byte {pos} is 0x{val:02x}"
                              if False else f"verify_gpg_signature rejects ({out}) a correctly framed signature depending on the CONTENT of the hashed header (byte {pos})",
                              {"kind": "gpg", "desc": f"header byte {pos} = 0x{val:02x}", "entry": {"other_headers": hb.hex(), "signature": sig.hex()}, "key": keys.pub[1],
                               "data_hex": data.hex(), "outcome": out, "exc": exc})
            # and a signature over a transformed payload (CRLF line ends, stripped trailing whitespace) must not verify for the original
            for alt in (data.replace(b"\r\n", b"\n").replace(b"\r", b"\n").replace(b"\n", b"\r\n"), data.rstrip()):
                if alt != data:
                    sig2 = crypto.gpg_sign(keys.seeds[1], alt, hb)
                    out2, _, _ = lib.call(auth.verify_gpg_signature, {"other_headers": hb.hex(), "signature": sig2.hex()}, keys.pub[1], data)
                    run.evaluations += 1
                    if out2 == "accept":
                        run.violation(f"verify_gpg_signature accepts a signature made over a transformed payload (header byte {pos} dependent)",
                                      {"kind": "gpg", "desc": f"header byte {pos} = 0x{val:02x}", "entry": {"other_headers": hb.hex(), "signature": sig2.hex()},
                                       "key": keys.pub[1], "data_hex": data.hex(), "outcome": out2})
            run._distinct.add(f"hdrbyte-{pos}-{val}")
    run.extra["header_content_sweep"] = nsweep
    run.exhaustive = True
    # ---------------- real GnuPG
    try:
        g = gnupg.Gpg(run.scratch)
    except gnupg.GpgUnavailable as e:
        run.skipped.append(f"GnuPG sub-check skipped: {e}")
        return
    try:
        for kf in ("test_key_1_268B62D0.pri.asc", "test_key_2_7DB43643.pri.asc"):
            p = os.path.join(REPO, "tests", "testdata", kf)
            if os.path.exists(p):
                g.import_key(p)
        for i in range(2 if quick else 6):
            g.generate(f"cctverif key {i}")
        fprs = g.fingerprints()
        # validate the stand-in itself: gpg --verify accepts what it produced, and the parsed q verifies under the independent oracle
        probe = b"stand-in validation"
        sigpkt = g.detach_sign(probe, fprs[0])
        other, sig64, _, _ = gnupg.parse_signature(sigpkt)
        q = gnupg.parse_pubkey(g.export(fprs[0]))
        if not (g.verify(probe, sigpkt) and crypto.ed25519_ref_verify(q, crypto.gpg_digest(probe, other), sig64)):
            raise MachineryFailure("the GnuPG stand-in does not reproduce a signature GnuPG itself verifies")
        class Flaky:
            """The gpg binary seen through a signer that now and then does not answer in time (hardware key waiting for a touch): the first
            request of a burst raises subprocess.TimeoutExpired, the operator simply runs the command again."""

            def __init__(self, inner):
                self.inner, self.armed = inner, False

            def create_signature(self, data, keyid):
                if self.armed:
                    self.armed = False
                    import subprocess
                    raise subprocess.TimeoutExpired(cmd=["gpg", "--detach-sign"], timeout=10)
                return self.inner.create_signature(data, keyid)

            def __getattr__(self, name):
                return getattr(self.inner, name)
        flaky = Flaky(g)

        def again(fn, *a):
            """run a signing command as an operator would: once more if the signer timed out"""
            import subprocess
            flaky.armed = rr.random() < 0.5
            try:
                return fn(*a)
            except subprocess.TimeoutExpired:
                return fn(*a)
            finally:
                flaky.armed = False
        old = (getattr(rs, "SSLIB_AVAILABLE", False), getattr(rs, "gpg_funcs", None))
        rs.SSLIB_AVAILABLE, rs.gpg_funcs = True, flaky
        try:
            ndocs = 10 if quick else 60
            for i in range(ndocs):
                ks = rr.sample(fprs, rr.randint(1, min(3, len(fprs))))
                qs = [g.export_pubkey(f)["keyval"]["public"]["q"] for f in ks]
                doc = metadata.delegating_doc("root", rr.choice([1, 2, 9]), {"root": metadata.rule(qs, len(qs)), "key_mgr": metadata.rule(qs[:1], 1)}, rr, tag=f"gnupg-{i}")
                path = os.path.join(run.scratch, f"gnupg-root-{i}.json")
                common.write_metadata_to_file({"signatures": {}, "signed": doc}, path)
                for f in ks:
                    if rr.random() < 0.5:
                        again(rs.sign_root_metadata_via_gpg, path, f)
                    else:
                        md = common.load_metadata_from_file(path)
                        again(rs.sign_root_metadata_dict_via_gpg, md, f)
                        common.write_metadata_to_file(md, path)
                if i % 2:
                    # the normal root update: edit the signed part of the stored file, then every signer signs AGAIN
                    md = common.load_metadata_from_file(path)
                    md["signed"]["x-tag"] = f"gnupg-{i}-edited"
                    common.write_metadata_to_file(md, path)
                    for f in ks:
                        if rr.random() < 0.5:
                            again(rs.sign_root_metadata_via_gpg, path, f)
                        else:
                            md = common.load_metadata_from_file(path)
                            again(rs.sign_root_metadata_dict_via_gpg, md, f)
                            common.write_metadata_to_file(md, path)
                env = common.load_metadata_from_file(path)
                run.evaluations += 1
                if set(env["signatures"]) != set(qs):
                    run.violation("GPG signing path does not file the entry under the key's raw public value q", {"kind": "gnupg", "envelope": env, "q": qs})
                    continue
                out, exc, _ = lib.call(auth.verify_signable, env, qs, len(qs), gpg=True)
                if out != "accept":
                    run.violation(f"signatures made by the real gpg binary and transcribed by the library's GPG path are not accepted: {out}",
                                  {"kind": "gnupg", "envelope": env, "exc": exc})
                # the same through the two rules built on verify_signable (a root vouching for itself in OpenPGP mode), and with entries of
                # every other kind filed BEFORE the genuine ones (raw signatures, malformed values, junk names): they are skipped, not fatal
                od, oe, _ = lib.call(auth.verify_delegation, "root", env, copy.deepcopy(env), gpg=True)
                prev = copy.deepcopy(env)
                prev["signed"]["version"] = env["signed"]["version"] - 1 if env["signed"]["version"] > 1 else 0
                orr, ore, _ = (lib.call(auth.verify_root, prev, env) if prev["signed"]["version"] >= 1 else ("accept", None, ""))
                other = keys.pub[2]
                tcb = twin_canon(env["signed"])
                hdr0 = next(iter(env["signatures"].values()))["other_headers"]
                noise = {other: rr.choice([{"signature": keys.sign(2, tcb).hex()},
                                           {"other_headers": hdr0, "signature": keys.sign(2, b"stale content").hex()}]),      # authorized, well-formed, but not valid for this payload
                         "junk": "x", keys.pub[3]: {"signature": "zz"},
                         keys.pub[1]: {"other_headers": "", "signature": "00" * 64}}
                mixed = {"signatures": {**dict(rr.sample(sorted(noise.items()), rr.randint(1, 4))), **env["signatures"]}, "signed": env["signed"]}
                om, ome, _ = lib.call(auth.verify_signable, mixed, qs + [other], len(qs), gpg=True)
                run.evaluations += 3
                for what, o, e in (("verify_delegation('root', doc, doc, gpg=True)", od, oe), ("verify_root(previous version, doc)", orr, ore),
                                   ("verify_signable(gpg=True) with other kinds of entries filed first", om, ome)):
                    if o != "accept":
                        run.violation(f"signatures made by the real gpg binary are not accepted through {what}: {o}", {"kind": "gnupg", "envelope": env, "exc": e})
                # independent oracle agrees that the transcription is the RFC framing
                for qk, ent in env["signatures"].items():
                    if not crypto.ed25519_ref_verify(bytes.fromhex(qk), crypto.gpg_digest(twin_canon(env["signed"]), bytes.fromhex(ent["other_headers"])),
                                                     bytes.fromhex(ent["signature"])):
                        run.violation("transcribed GnuPG signature is not valid under the RFC 4880 framing per the independent oracle", {"kind": "gnupg", "envelope": env})
                # any change makes it rejected
                for what in ("payload", "header", "signature", "key"):
                    e2 = copy.deepcopy(env)
                    k0 = sorted(e2["signatures"])[0]
                    auth_keys = list(qs)
                    if what == "payload":
                        e2["signed"]["x-tag"] = "changed"
                    elif what == "header":
                        e2["signatures"][k0]["other_headers"] = gamma.flip_bit(bytes.fromhex(e2["signatures"][k0]["other_headers"]), rr).hex()
                    elif what == "signature":
                        e2["signatures"][k0]["signature"] = gamma.flip_bit(bytes.fromhex(e2["signatures"][k0]["signature"]), rr).hex()
                    else:
                        other_q = keys.pub[1]
                        e2["signatures"][other_q] = e2["signatures"].pop(k0)
                        auth_keys = [other_q if x == k0 else x for x in auth_keys]
                    o2, _, _ = lib.call(auth.verify_signable, e2, auth_keys, len(qs), gpg=True)
                    run.evaluations += 1
                    if o2 == "accept":
                        run.violation(f"GnuPG-signed metadata still accepted after a change of the {what}", {"kind": "gnupg", "envelope": e2})
                run._distinct.add(f"gnupg-doc-{i}")
                run.traces_validated += 1
            # sign_via_gpg with include_fingerprint: a well-formed OpenPGP entry whose see_also is the fingerprint, and it verifies
            for fpr in fprs[:3]:
                data = twin_canon({"probe": fpr})
                ent = rs.sign_via_gpg(data, fpr, include_fingerprint=True)
                qk = g.export_pubkey(fpr)["keyval"]["public"]["q"]
                run.evaluations += 1
                okf = set(ent) == {"other_headers", "signature", "see_also"} and ent["see_also"] == fpr and common.is_gpg_signature(ent)
                o3, e3, _ = lib.call(auth.verify_gpg_signature, ent, qk, data)
                if not okf or o3 != "accept":
                    run.violation("sign_via_gpg(include_fingerprint=True) does not yield a well-formed, verifying OpenPGP entry with see_also = fingerprint",
                                  {"kind": "gnupg", "entry": ent, "outcome": o3, "exc": e3})
                ent2 = rs.sign_via_gpg(data, fpr)
                if set(ent2) != {"other_headers", "signature"}:
                    run.violation("sign_via_gpg returns fields beyond other_headers and signature", {"kind": "gnupg", "entry": ent2})
            # fetch_keyval_from_gpg normalisation
            kv = rs.fetch_keyval_from_gpg(" ".join(fprs[0][i:i + 4].upper() for i in range(0, 40, 4)))
            if kv != g.export_pubkey(fprs[0])["keyval"]["public"]["q"]:
                run.violation("fetch_keyval_from_gpg does not return the key's raw public value", {"kind": "gnupg"})
            run.extra["gnupg_documents"] = ndocs
            run.extra["gnupg_keys"] = len(fprs)
        finally:
            rs.SSLIB_AVAILABLE, rs.gpg_funcs = old
            if old[1] is None and hasattr(rs, "gpg_funcs"):
                del rs.gpg_funcs
    finally:
        g.close()
    run.assumptions.append("SHA-256/ed25519 arithmetic is not modelled in Gpg.tla; it is bound by differential execution against hashlib, a pure-Python RFC 8032 verifier and the gpg binary")


def replay(payload):
    auth = lib.cct("authentication")
    if "entry" in payload:
        out, exc, _ = lib.call(auth.verify_gpg_signature, payload["entry"], payload["key"], bytes.fromhex(payload["data_hex"]))
        print(payload["desc"], "->", out, exc)
    else:
        print("re-run ./check C10")
    return 0
