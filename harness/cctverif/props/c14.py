"""C14 Delegating-metadata checker enforces exactly the documented schema."""
from __future__ import annotations

import copy
import hashlib
import json
import random

from .. import lib, schema_gamma, twins
from ..tlc import MachineryFailure

LEVEL = "model_checking"
MUTANTS = {"sigvals_unchecked": "MutationRejected", "thr_ge_0": "MutationRejected", "dups_ok": "MutationRejected",
           "extra_ok": "MutationRejected", "root_version_optional": "RootNeedsVersion"}
DOC_FAMILIES = {"accept", "TypeError", "ValueError", "SignatureError", "MetadataVerificationError", "UnknownRoleError", "CCT_Error"}


VALID_ROOT = {"signatures": {}, "signed": {"type": "root", "version": 1, "metadata_spec_version": "0.6.0", "timestamp": "2024-01-01T00:00:00Z",
                                           "expiration": "2030-01-01T00:00:00Z",
                                           "delegations": {"root": {"pubkeys": [schema_gamma.KA], "threshold": 1}, "key_mgr": {"pubkeys": [schema_gamma.KB], "threshold": 1}}}}


def desc(case):
    d = case["doc"]
    return ", ".join(f"{f}={d[f]}" for f in case["muts"]) or "unmutated valid document"


def check(run):
    quick = run.tier == "quick"
    c, auth = lib.cct("common"), lib.cct("authentication")
    run.rule = ("Schema.tla enumerates every valid base document (type x version/timestamp presence x delegations x signature values) and "
                "every single mutation (thorough: every pair of mutations) of every field to every class of its field (9 fields, 7..31 "
                "classes each; three-valued requirement accept/reject/unspecified); each abstract document is concretised with random "
                "representatives and passed to checkformat_delegating_metadata; accepted documents are passed to all verifiers in every "
                "argument position; distinct = distinct abstract documents, non-trivial = at least one mutation")
    for m, exp in MUTANTS.items():
        run.mutant("Schema", f"Schema_mut_{m}.cfg", expect=exp, timeout=600)
    r = run.tlc("Schema", "Schema_quick.cfg" if quick else "Schema_thorough.cfg", expect_cases=True, timeout=3000)
    rr = random.Random(run.seed)
    reps = 3 if quick else 1
    unspecified = 0
    for case in r.cases:
        d = case["doc"]
        for _ in range(reps):
            env = schema_gamma.build(d, rr)
            tv = twins.twin_schema(env)
            if tv != case["verdict"]:
                raise MachineryFailure(f"twin_schema says {tv} but Schema.tla says {case['verdict']} for {d} / {env!r}")
            snap = copy.deepcopy(env)
            out, exc, _ = lib.call(c.checkformat_delegating_metadata, env)
            run.evaluations += 1
            fam = lib.family(out)
            if case["verdict"] == "unspecified":
                unspecified += 1
                if fam not in ("accept", "TypeError", "ValueError"):
                    run.violation(f"checker raised {out} on a document of an unspecified class ({desc(case)})", {"kind": "schema", "doc": d, "concrete": repr(snap)})
                if (fam == "accept") != (case["predicted"] == "accept"):
                    run.note_drift(f"unspecified class decided differently from the implementation layer: {desc(case)} -> {fam}")
            elif case["verdict"] == "accept":
                if fam != "accept":
                    run.violation(f"checker rejects a document the schema accepts ({desc(case)}): {out}", {"kind": "schema", "doc": d, "concrete": repr(snap), "exc": exc})
            else:
                if fam == "accept":
                    run.violation(f"checker accepts a document the schema rejects ({desc(case)})", {"kind": "schema", "doc": d, "concrete": repr(snap)})
                elif fam not in ("TypeError", "ValueError"):
                    run.violation(f"checker raised {out} instead of TypeError/ValueError ({desc(case)})", {"kind": "schema", "doc": d, "concrete": repr(snap), "exc": exc})
            if repr(env) != repr(snap):
                run.violation("checker modified its argument", {"kind": "schema", "doc": d, "concrete": repr(snap)})
            # anything the checker accepts must not make a verifier fail internally, in any argument position
            if fam == "accept":
                for name, fn in (("verify_root(doc, doc)", lambda: auth.verify_root(env, env)),
                                 ("verify_root(valid root, doc)", lambda: auth.verify_root(copy.deepcopy(VALID_ROOT), env)),
                                 ("verify_root(doc, valid root)", lambda: auth.verify_root(env, copy.deepcopy(VALID_ROOT))),
                                 ("verify_delegation('key_mgr', doc, valid root)", lambda: auth.verify_delegation("key_mgr", env, copy.deepcopy(VALID_ROOT))),
                                 ("verify_delegation('root', doc, doc)", lambda: auth.verify_delegation("root", env, env)),
                                 ("verify_delegation('key_mgr', doc, doc)", lambda: auth.verify_delegation("key_mgr", env, env)),
                                 ("verify_delegation('nope', doc, doc, gpg=True)", lambda: auth.verify_delegation("nope", env, env, gpg=True)),
                                 ("verify_signable(doc, [k], 1)", lambda: auth.verify_signable(env, [schema_gamma.KA], 1)),
                                 ("verify_signable(doc, [k], 1, gpg=True)", lambda: auth.verify_signable(env, [schema_gamma.KA], 1, gpg=True))):
                    o2, e2, _ = lib.call(fn)
                    run.evaluations += 1
                    if lib.family(o2) not in DOC_FAMILIES:
                        has_root = isinstance(env.get("signed"), dict) and isinstance(env["signed"].get("delegations"), dict) and "root" in env["signed"]["delegations"]
                        run.violation(f"{name} raised {o2} on a document the checker accepts (type={d['type']}, root rule {'present' if has_root else 'absent'})",
                                      {"kind": "schema", "doc": d, "concrete": repr(snap), "exc": e2})
        if case["muts"]:
            run._distinct.add(hashlib.sha256(json.dumps(d, sort_keys=True).encode()).hexdigest()[:16])
        run.traces_validated += 1
        if len(case["muts"]) == 1:
            run.sample({"abstract": d, "mutated": case["muts"], "schema_verdict": case["verdict"]}, cap=3)
    run.exhaustive = True
    run.extra["executions_on_unspecified_classes"] = unspecified
    run.assumptions.append("exhaustive over field classes; concrete JSON within a class is sampled (1-3 representatives per abstract document)")


def replay(payload):
    print("abstract document:", payload.get("doc"))
    print("concrete (repr):", payload.get("concrete"))
    print("re-run ./check C14 to re-evaluate (concrete documents are regenerated from the seed)")
    return 0
