"""C05 Delegation check uses exactly the named role's keys and threshold."""
from __future__ import annotations

from .. import delegation_engine as de
from .. import cct_engine, lib, metadata, traces_delegation
from ..tlc import MachineryFailure

LEVEL = "model_checking"
MUTANTS = {"fallback_role": "UnknownReported", "unknown_ok": "RoleExact", "union_roles": "RoleExact", "untrusted_keys": "RoleExact"}


def owns(o):
    c, obs, allowed = o["case"], o["observed"], o["allowed"]
    if not c.get("argsok", True):
        return obs == "accept"                                   # acceptance although the trusted metadata/arguments are malformed
    if obs == "accept" and "accept" not in allowed and (c["unknown"] or not c["meets"]):
        return True                                              # accepted without the named role's rule being met
    if c["unknown"] and not c["mismatch"] and obs not in ("UnknownRoleError",):
        return True                                              # undelegated role not reported as unknown
    if allowed == ["accept"] and obs != "accept":
        return True                                              # properly signed for the role, yet not accepted
    return False


def check(run):
    quick = run.tier == "quick"
    if metadata.NWF != 47 or de.NENVWF != 6:
        raise MachineryFailure("malformation tables changed: update NWF / NEnvWF in spec/mc/Delegation_*.cfg")
    run.rule = ("TLC enumerates Delegation.tla: role x trusted rule for that role (absent / any key subset x threshold) with decoy "
                "rules for other roles listing every key x untrusted kind (plain payload, delegating metadata of either type "
                "whose own delegations list every key, near-miss delegating metadata) x per-key signature states x alt/junk "
                "entries x mode, plus malformed arguments / trusted metadata / envelopes; each concretised and run through "
                "verify_delegation; non-trivial = non-empty signature map")
    run.tlc("Delegation", "Delegation_quick.cfg", timeout=900)
    for m, exp in MUTANTS.items():
        run.mutant("Delegation", f"Delegation_mut_{m}.cfg", expect=exp, timeout=600)
    r = run.tlc("Delegation", "Delegation_emit_quick.cfg" if quick else "Delegation_emit_thorough.cfg", raw_cases=True,
                expect_cases=True, timeout=3000)
    bad = de.replay(run, r, opts={"strip": False})
    run.exhaustive = True
    for o in bad:
        if owns(o):
            run.violation(de.coarse_sig(o), {"kind": "verify_delegation", **o})
        else:
            run.note_drift("outside Allowed but owned by another property: " + de.coarse_sig(o))
    # the composed chain root -> key_mgr -> pkg_mgr (CCT.tla): design, two mutants, behaviours replayed through the real API
    run.tlc("CCT", "CCT.cfg", timeout=600)
    for m in ("km_unchecked", "any_signature"):
        run.mutant("CCT", f"CCT_mut_{m}.cfg", expect="EndToEnd", timeout=300)
    cct_engine.simulate_and_replay(run, 200 if quick else 4000)
    # the role's rule must also decide when two delegation checks run concurrently over shared trusted metadata:
    # every 1-pre-emption line schedule of three fixed call pairs (the full schedule exploration is C12's)
    from .. import calls_engine
    calls_engine.preemption_schedules(run, quick, two_preemptions=0 if quick else 500)
    traces_delegation.fixture_traces(run, owns)
    traces_delegation.random_traces(run, 300 if quick else 6000, owns)
    traces_delegation.aliased_traces(run, 200 if quick else 3000, owns)


def replay(payload):
    c = payload["concrete"]
    out, exc, _ = lib.call(lib.cct("authentication").verify_delegation, c["role"], c["untrusted"], c["trusted"], gpg=c["gpg"])
    print(f"observed={out} exc={exc} allowed={payload['allowed']}")
    bad = lib.family(out) not in payload["allowed"] and owns({"case": payload.get("case", payload.get("event", {})) | payload.get("case", {}),
                                                              "observed": out, "allowed": payload["allowed"]}) if "case" in payload else \
        lib.family(out) not in payload["allowed"]
    if bad:
        print("VIOLATION property=C05 replay=(this file)")
    return 1 if bad else 0
