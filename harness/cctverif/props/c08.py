"""C08 Persisting metadata never changes its trust status."""
from __future__ import annotations

import random

from .. import signing_engine as se
from . import c09

LEVEL = "model_checking"
MUTANTS = {"lossy_file": "RoundTrip", "failed_write": "RoundTrip"}


def check(run):
    quick = run.tier == "quick"
    run.rule = ("every path of Signing.tla with the file actions enabled (wrap / sign / edit / junk / write / load; 2 keys, 2 payload "
                "identities) up to the depth bound, on real files with payload representatives that stress the round trip (floats incl. "
                "NaN/Infinity/-0.0/subnormals, non-ASCII, lone surrogates, big integers, escapes): after every write the file bytes "
                "equal the twin's canonical bytes, after every load the value re-serializes to the file's bytes, and every verifier "
                "outcome (threshold sweep) equals the one the specification predicts, which does not change across write/load; "
                "the fixpoint Ser(Parse(Ser(v))) = Ser(v) makes further cycles the identity")
    for m, exp in MUTANTS.items():
        run.mutant("Signing", f"Signing_mut_{m}.cfg", expect=exp, timeout=600)
    r = run.tlc("Signing", "Signing_files_quick.cfg" if quick else "Signing_files_thorough.cfg", raw_cases=True, expect_cases=True, timeout=3000)
    c09.report(run, se.replay(run, r, stress=True), "C08")
    # the interactive modify-metadata loop (Modify.tla): load -> edit thresholds / add signatures -> write, through scripted input
    import os
    from .. import modify_engine
    run.mutant("Modify", "Modify_mut_no_copy.cfg", expect="OriginalUntouched", timeout=300)
    rm = run.tlc("Modify", "Modify_quick.cfg" if quick else "Modify_thorough.cfg", expect_cases=True, timeout=1800, workers=8)
    wd = os.path.join(run.scratch, "modify")
    os.makedirs(wd, exist_ok=True)
    cases = rm.cases if quick else rm.cases[::4]
    for idx, case in enumerate(cases):
        probs = modify_engine.replay_script(case, run.seed, idx, wd)
        run.evaluations += 1
        run._distinct.add("mod%d" % idx)
        if not probs:
            run.traces_validated += 1
        for p in probs:
            run.violation("modify-metadata loop: " + p.split(" {")[0].split(" [")[0][:120], {"kind": "modify", "case": case, "problem": p})
    run.extra["modify_scripts_replayed"] = len(cases)
    # root pairs as they exist in memory right after being drafted (the offered root made from the trusted one by copy-and-edit, so that
    # equal parts are shared objects) and the same pair after both were written to files and loaded back: the verdict is the same
    import copy
    from .. import gamma, lib, root_engine, verify_engine
    from ..tlc import decode_case_line
    from ..twins import twin_canon
    auth, common = lib.cct("authentication"), lib.cct("common")
    rx = run.tlc("Root", "Root_emit_quick.cfg", raw_cases=True, expect_cases=True, timeout=3000)
    npairs = 0
    tp, op = os.path.join(wd, "persist-trusted.json"), os.path.join(wd, "persist-offered.json")
    for batch in verify_engine.batches(rx.case_file, every=8 if quick else 2):
        for line in batch[::2]:
            case = decode_case_line(line)
            r = verify_engine._rng(run.seed + 99, line)
            trusted, new = root_engine.concretise(case, r, run.seed)
            if not (isinstance(new, dict) and isinstance(new.get("signed"), dict) and isinstance(trusted, dict)):
                continue
            try:
                new = dict(new, signed=gamma.share_equal_parts(copy.deepcopy(new["signed"]), trusted))
                twin_canon([trusted, new])
                common.write_metadata_to_file(trusted, tp)
                common.write_metadata_to_file(new, op)
            except (TypeError, ValueError, RecursionError):
                continue
            o_mem = lib.call(auth.verify_root, trusted, new)[0]
            o_disk = lib.call(auth.verify_root, common.load_metadata_from_file(tp), common.load_metadata_from_file(op))[0]
            run.evaluations += 2
            npairs += 1
            if o_mem != o_disk:
                run.violation(f"verify_root: the verdict on a drafted pair changes after both documents were written and loaded back ({o_mem} -> {o_disk})",
                              {"kind": "persist_pair", "case": case, "in_memory": o_mem, "after_write_load": o_disk})
    run.extra["root_pairs_before_and_after_persisting"] = npairs
    # adding a signature to a STORED file through the OpenPGP signing path (a stand-in for securesystemslib's gpg functions): what is stored
    # afterwards is the same payload, every earlier signature, and the new entry - canonical, and verifying for every signer
    from .. import crypto, faults, metadata
    from ..traces_verify import oracle_verify
    rs = lib.cct("root_signing")
    rrg = random.Random(run.seed * 5 + 1)
    keysg = gamma.Keys(3, run.seed, offset=9300)
    old_state = (getattr(rs, "SSLIB_AVAILABLE", False), getattr(rs, "gpg_funcs", None))
    try:
        for i in range(12 if quick else 120):
            gseed = crypto.seed_for(9400 + i, run.seed)
            gpub = crypto.fast_public(gseed).hex()
            doc = metadata.delegating_doc("root", 1 + i % 3, {"root": metadata.rule([keysg.pub[1], keysg.pub[2], gpub], 2), "key_mgr": metadata.rule([keysg.pub[3]], 1)}, rrg)
            b = twin_canon(doc)
            h = rrg.choice(gamma.HEADERS)
            env = {"signatures": {keysg.pub[1]: {"other_headers": h.hex(), "signature": keysg.sign(1, crypto.gpg_digest(b, h)).hex()}}, "signed": doc}
            if i % 2:
                env["signatures"][keysg.pub[2]] = {"signature": keysg.sign(2, b).hex()}      # a raw entry by another key: not ours to touch
            if i % 3 == 0:
                env["signatures"][gpub] = {"other_headers": h.hex(), "signature": crypto.gpg_sign(gseed, b"earlier content", h).hex()}      # our own stale entry
            fp = os.path.join(wd, "gpg-add-%d.json" % i)
            common.write_metadata_to_file(env, fp) if i % 4 else open(fp, "w").write(__import__("json").dumps(env, indent=4))
            rs.SSLIB_AVAILABLE, rs.gpg_funcs = True, faults.StubGpg(gseed, faults.FP)
            if i % 2:
                rs.sign_root_metadata_via_gpg(fp, faults.FP)
            else:
                md = common.load_metadata_from_file(fp)
                rs.sign_root_metadata_dict_via_gpg(md, faults.FP)
                common.write_metadata_to_file(md, fp)
            with open(fp, "rb") as f:
                data = f.read()
            run.evaluations += 1
            problems = []
            try:
                new = __import__("json").loads(data)
                if data != twin_canon(new):
                    problems.append("the stored file is not canonical")
                if not isinstance(new, dict) or twin_canon(new.get("signed")) != b:
                    problems.append("the stored payload changed")
                else:
                    for k, v in env["signatures"].items():
                        if k != gpub and twin_canon(new["signatures"].get(k)) != twin_canon(v):
                            problems.append("a signature already present was altered or dropped")
                    ent = new["signatures"].get(gpub)
                    if not (isinstance(ent, dict) and oracle_verify(gpub, crypto.gpg_digest(b, bytes.fromhex(ent["other_headers"])), ent["signature"])):
                        problems.append("the added entry is not a valid OpenPGP-mode signature by the signing key over the payload")
                    out, _, _ = lib.call(auth.verify_signable, new, [keysg.pub[1], gpub], 2, gpg=True)
                    if out != "accept":
                        problems.append(f"the stored envelope does not verify for the earlier signer plus the new one ({out})")
            except Exception as e:  # noqa: BLE001
                problems.append(f"the stored file cannot be read back ({type(e).__name__})")
            for pr in problems:
                run.violation("adding a signature to a stored file through the OpenPGP signing path: " + pr, {"kind": "gpg_add", "index": i})
            run._distinct.add("gpg-add-%d" % i)
    finally:
        rs.SSLIB_AVAILABLE, rs.gpg_funcs = old_state
        if old_state[1] is None and hasattr(rs, "gpg_funcs"):
            del rs.gpg_funcs
    # a write the operating system cuts short (file-size limit, full disk, quota): the call may FAIL, but when it returns normally the file
    # holds the complete canonical bytes - probed in a forked child under RLIMIT_FSIZE for several limits around the document's size
    import multiprocessing as mp

    def _limited(conn, limit, path, doc, repodata_path, key_hex):
        import resource
        import signal
        signal.signal(signal.SIGXFSZ, signal.SIG_IGN)
        resource.setrlimit(resource.RLIMIT_FSIZE, (limit, limit))
        out = {}
        for name, fn in (("write_metadata_to_file", lambda: common.write_metadata_to_file(doc, path)),
                         ("sign_all_in_repodata", lambda: lib.cct("signing").sign_all_in_repodata(repodata_path, key_hex))):
            try:
                fn()
                out[name] = "returned"
            except BaseException as e:  # noqa: BLE001
                out[name] = type(e).__name__
        conn.send(out)
        conn.close()

    big = {"signatures": {}, "signed": {"payload": ["entry %06d" % i for i in range(600)], "n": 1}}
    big_bytes = twin_canon(big)
    nlim = 0
    for limit in (1, 100, 3000, len(big_bytes) - 1, len(big_bytes), len(big_bytes) + 1, 10 ** 9):
        path, rpath = os.path.join(wd, "limited-%d.json" % limit), os.path.join(wd, "limited-repodata-%d.json" % limit)
        repodata = {"info": {}, "packages": {"p%04d-1.0-0.tar.bz2" % i: {"name": "p%04d" % i, "version": "1.0"} for i in range(60)}, "packages.conda": {}}
        with open(rpath, "wb") as f:
            f.write(twin_canon(repodata))
        with open(path, "wb") as f:
            f.write(b"{}")
        kseed = crypto.seed_for(9450, run.seed)
        parent, child = mp.get_context("fork").Pipe()
        pr = mp.get_context("fork").Process(target=_limited, args=(child, limit, path, big, rpath, kseed.hex()))
        pr.start()
        child.close()
        res = parent.recv() if parent.poll(120) else {}
        pr.join(30)
        run.evaluations += 2
        nlim += 1
        with open(path, "rb") as f:
            got = f.read()
        if res.get("write_metadata_to_file") == "returned" and got != big_bytes:
            run.violation("write_metadata_to_file returned normally although the operating system stored only part of the document",
                          {"kind": "limited_write", "file_size_limit": limit, "document_bytes": len(big_bytes), "stored_bytes": len(got)})
        if res.get("sign_all_in_repodata") == "returned":
            with open(rpath, "rb") as f:
                rgot = f.read()
            try:
                new = __import__("json").loads(rgot)
                okr = rgot == twin_canon(new) and set(new.get("signatures", {})) == set(repodata["packages"])
            except Exception:  # noqa: BLE001
                okr = False
            if not okr:
                run.violation("sign_all_in_repodata returned normally although the operating system stored only part of the signed document",
                              {"kind": "limited_write", "file_size_limit": limit, "stored_bytes": len(rgot)})
        run._distinct.add("limited-%d" % limit)
    run.extra["size_limited_writes"] = nlim
    # Alias.tla (PersistNeutral): the same for every sharing pattern of the two root rules' key lists, judged against the specification's verdict
    from .. import alias_engine
    run.mutant("Alias", "Alias_mut_same_list_skip.cfg", expect="ValueDetermined", timeout=300)
    ra = run.tlc("Alias", "Alias.cfg", expect_cases=True, timeout=600)
    for b in alias_engine.replay(run, ra.cases[1::3] if quick else ra.cases, persist=True):
        if b["why"] != "in-memory verdict" or True:
            c = b["case"]
            run.violation(f"root pair with {'shared' if c['shared'] else 'separate'} key lists: {b['why']} is {b['observed']}, the specification's is {b['expected']}",
                          {"kind": "alias", **b})
    run.exhaustive = True


def replay(payload):
    import tempfile
    with tempfile.TemporaryDirectory() as d:
        bad, _ = se.run_path(payload["path"], payload["seed"], "replay", d, stress=True)
    for b in bad:
        print(b["why"], b.get("observed"), b.get("expected"))
    if bad:
        print("VIOLATION property=C08 replay=(this file)")
    return 1 if bad else 0
