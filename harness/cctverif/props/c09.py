"""C09 Sign-then-verify round trip, signer binding, determinism, order independence."""
from __future__ import annotations

from .. import signing_engine as se
from .. import traces_verify

LEVEL = "model_checking"
MUTANTS = {"sign_clears": "SignLocal", "sign_other": "SignEffective", "cached_bytes": "SignerBinding"}


def report(run, bad, prop):
    for b in bad:
        a = b["action"]
        run.violation(f"signing path: {b['why']} at {a['a']}" + (f" observed={b.get('observed')} expected={b.get('expected')}" if "expected" in b else ""),
                      {"kind": "signing_path", **b})


def check(run):
    quick = run.tier == "quick"
    run.rule = ("every path of Signing.tla (wrap / sign(k) / edit / junk; 3 keys, 2 payload identities) up to the depth bound is "
                "replayed through wrap_as_signable / sign_signable / verify_signable; after every step alpha(envelope) = spec state, "
                "signature bytes = independent RFC 8032 signer's, and the threshold sweep 1..n+1 over two authorized lists matches "
                "the specification's signer set; distinct = distinct paths, all non-trivial")
    for m, exp in MUTANTS.items():
        run.mutant("Signing", f"Signing_mut_{m}.cfg", expect=exp, timeout=600)
    r = run.tlc("Signing", "Signing_quick.cfg" if quick else "Signing_thorough.cfg", raw_cases=True, expect_cases=True, timeout=3000)
    report(run, se.replay(run, r, stress=False), "C09")
    run.exhaustive = True
    # random sign/verify histories with 6 keys judged by Trace_Verify (library's signer output must be in Signers)
    traces_verify.library_signed_traces(run, n=400 if quick else 8000,
                                        owner=lambda o: True)
    traces_verify.library_signed_big(run, n=6 if quick else 60, owner=lambda o: True)


def replay(payload):
    import tempfile
    with tempfile.TemporaryDirectory() as d:
        bad, _ = se.run_path(payload["path"], payload["seed"], "replay", d)
    for b in bad:
        print(b["why"], b.get("observed"), b.get("expected"))
    if bad:
        print("VIOLATION property=C09 replay=(this file)")
    return 1 if bad else 0
