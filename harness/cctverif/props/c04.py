"""C04 Root chain integrity over arbitrary histories of offered updates."""
from __future__ import annotations

import json
import os
import tempfile

from .. import chain_engine as ce

LEVEL = "model_checking"
MUTANTS = {"gt": "Monotone", "thr_from_new": "NoTakeover", "keys_from_new": "NoTakeover", "noself": "NeverStuck",
           "noself_stranded": "NotStranded", "keep_on_reject": "ChainInv", "malformed_installs": "NoTakeover"}


def check(run):
    quick = run.tier == "quick"
    run.rule = ("RootChain.tla: TLC explores the whole reachable graph (honest/careless rotations, compromises, every envelope the "
                "adversary can assemble incl. replays, roll-backs, skips, stripped and padded variants, persist/restart) and checks "
                "NoTakeover(Step), Monotone, ChainInv, NeverStuck, NotStranded, PersistNeutral, OfferEffect; -simulate behaviours (4 keys, 6 versions) "
                "are stepped through a real client loop on real files; seeded random histories (5 keys, 9 versions) are judged by "
                "Trace_RootChain.tla; distinct = distinct behaviours/histories, all non-trivial (every one contains offers)")
    run.tlc("RootChain", "RootChain_quick.cfg", timeout=900)
    run.tlc("RootChain", "RootChain_assemble.cfg", timeout=600)
    if not quick:
        run.tlc("RootChain", "RootChain_thorough.cfg", timeout=3000)
    for m, exp in MUTANTS.items():
        run.mutant("RootChain", f"RootChain_mut_{m}.cfg", expect=exp, timeout=600)
    ce.simulate_and_replay(run, num=300 if quick else 8000, depth=13)
    ce.random_histories(run, n=40 if quick else 600, length=80 if quick else 200)


def replay(payload):
    from ..core import Run
    if payload.get("kind") == "rootchain_behaviour":
        with tempfile.TemporaryDirectory() as d:
            bad, _ = ce.replay_behaviour(payload["behaviour"], payload["seed"], d, payload["index"])
            bad += ce.replay_behaviour(payload["behaviour"], payload["seed"], d, payload["index"], client="cli")[0]
        print(json.dumps(bad, indent=1, default=repr)[:3000])
        if bad:
            print("VIOLATION property=C04 replay=(this file)")
        return 1 if bad else 0
    print("history replays are re-generated from the seed: run ./check C04 with VERIF_SEED=%s" % payload.get("seed"))
    return 0
