"""C13 Failures are fail-closed and use the documented error families."""
from __future__ import annotations

import hashlib
import itertools
import copy
import json
import multiprocessing as mp
import os
import random

from .. import gamma, delegation_engine as de
from .. import lib, mutation_engine as me, root_engine, traces_delegation, traces_root, traces_verify
from .. import verify_engine as ve
from ..tlc import MachineryFailure

LEVEL = "model_checking"
PYNAMES = ["'%s'" % k for k, _ in me.PY_KINDS] + ["'as_char_tuple'", "'as_bytes'"]


def owns(o):
    """C13 owns: an internal error anywhere; or a wrong documented family when only errors are allowed."""
    obs = lib.family(o["observed"])
    if obs.startswith("internal") or obs.startswith("returned"):
        return True
    return obs != "accept" and obs not in o["allowed"] and "accept" not in o["allowed"]


def _mut_work(args):
    name, seed, pairs, budget = args
    fx = me.fixtures(seed)
    table = me.api_table(fx)
    fn, valid = table[name]
    r = random.Random(hash((seed, name)) & 0xFFFFFFFF)
    api = name.split(":")[0]
    out = {"name": name, "events": {}, "n": 0, "classified": [], "samples": []}
    base = me.execute(name, fn, valid)
    out["events"][(api, base)] = out["events"].get((api, base), 0) + 1
    out["base"] = base
    muts = list(me.single_mutations(valid, r))
    if pairs:
        first = muts if len(muts) <= 400 else r.sample(muts, 400)
        extra = []
        for (d1, a1) in first:
            for (d2, a2) in r.sample(list(me.single_mutations(a1, r, py_kinds=False)), min(budget, 12)):
                extra.append(((d1, d2), a2))
        muts = muts + extra
    for desc, args2 in muts:
        o = me.execute(name, fn, args2)
        out["n"] += 1
        key = (api, o)
        out["events"][key] = out["events"].get(key, 0) + 1
        if (o.startswith("internal") or o.startswith("returned")) and len(out["samples"]) < 20:
            out["samples"].append({"api": name, "mutation": repr(desc), "outcome": o})
        # events alpha can classify go to the verifier trace specs
        try:
            ev = None
            if any(k in repr(desc) for k in PYNAMES):
                raise ValueError("Python-only value kinds are outside alpha's JSON domain (unspecified): family rule only")
            if api == "verify_root":
                ev = traces_root.alpha_call(args2[0], args2[1], o)
            elif api == "verify_delegation":
                ev = traces_delegation.alpha_call(args2[0], args2[1], args2[2], args2[3], o)
            elif api == "verify_signable" and isinstance(args2[3], bool) and isinstance(args2[2], int) and not isinstance(args2[2], bool) \
                    and args2[2] >= 1 and isinstance(args2[1], list) and all(me.lib and isinstance(k, str) for k in args2[1]):
                from ..twins import twin_is_hex_key
                e = args2[0]
                if (isinstance(e, dict) and set(e) == {"signatures", "signed"} and isinstance(e["signatures"], dict)
                        and type(e["signed"]) in (dict, list, str, int, float, bool, type(None))
                        and all(twin_is_hex_key(k) for k in args2[1]) and all(isinstance(k, str) for k in e["signatures"])):
                    ev = traces_verify.alpha_call(e, args2[1], min(args2[2], 10 ** 6), args2[3], o)
            if ev is not None:
                out["classified"].append((api, ev, repr(desc)))
        except Exception:  # noqa: BLE001 - unclassifiable input: only the family rule applies
            pass
    out["events"] = [(k[0], k[1], v) for k, v in out["events"].items()]
    return out


def check(run):
    quick = run.tier == "quick"
    run.rule = ("(a) Verify/Root/Delegation enumerations replayed, owning wrong-family and internal-error outcomes; (b) every argument "
                "position and every JSON path of valid argument tuples of 32 public validators/verifiers replaced by every wrong kind "
                "(21 JSON kinds incl. Infinity/NaN/2^70/depth-100/lone surrogate, 13 Python-only kinds, deletion, sibling value, extra "
                "field; thorough: pairs), each call under a 10 s watchdog; every (api, outcome class) judged by Errors.tla; calls that "
                "alpha can classify judged by Trace_Root / Trace_Delegation / Trace_Verify for the named situations; "
                "distinct = distinct (api, position, kind) mutations, all non-trivial")
    # the design terminates and refines the allowed sets
    run.tlc("Verify", "Verify_live.cfg", timeout=900)
    run.tlc("Root", "Root_quick.cfg", timeout=900)
    run.tlc("Delegation", "Delegation_quick.cfg", timeout=900)
    # (a) the verifier enumerations
    r1 = run.tlc("Verify", "Verify_emit_quick.cfg", raw_cases=True, expect_cases=True, timeout=3000)
    for o in ve.replay(run, r1):
        if owns(o):
            run.violation(ve.coarse_sig(o), {"kind": "verify_signable", **o})
    r2 = run.tlc("Root", "Root_emit_quick.cfg" if quick else "Root_emit_thorough.cfg", raw_cases=True, expect_cases=True, timeout=3000)
    for o in root_engine.replay(run, r2):
        if owns(o):
            run.violation(root_engine.coarse_sig(o), {"kind": "verify_root", **o})
    r3 = run.tlc("Delegation", "Delegation_emit_quick.cfg", raw_cases=True, expect_cases=True, timeout=3000)
    for o in de.replay(run, r3):
        if owns(o):
            run.violation(de.coarse_sig(o), {"kind": "verify_delegation", **o})
    # (b) the mutation domain
    fx = me.fixtures(run.seed)
    names = list(me.api_table(fx))
    jobs = [(n, run.seed, not quick, 6) for n in names]
    events, classified, bases = {}, [], {}
    with mp.get_context("fork").Pool(16) as pool:
        for res in pool.imap_unordered(_mut_work, jobs):
            run.evaluations += res["n"]
            bases[res["name"]] = res["base"]
            for api, o, n in res["events"]:
                events[(api, o)] = events.get((api, o), 0) + n
            classified.extend(res["classified"])
            run._distinct.update(f"{res['name']}#{i}" for i in range(res["n"]))
            for s in res["samples"]:
                run.sample(s)
    for n, b in bases.items():
        if b not in ("accept", "True") and not n.endswith(":floatver"):      # (an integral-float version is an unspecified class)
            raise MachineryFailure(f"the valid argument tuple for {n} is not accepted ({b}); mutation fixtures are wrong")
    evs = [{"api": a, "outcome": o} for (a, o) in sorted(events)]
    path = os.path.join(run.scratch, "c13-events.json")
    with open(path, "w") as f:
        json.dump(evs, f)
    r = run.tlc("Errors", "Errors.cfg", env={"TRACE_FILE": path}, workers=1, timeout=600)
    verdict = {c["eid"]: c for c in r.cases}
    for i, e in enumerate(evs, 1):
        if i not in verdict:
            raise MachineryFailure("Errors.tla did not judge event %d" % i)
        if verdict[i]["ok"]:
            run.traces_validated += 1
        else:
            run.violation(f"{e['api']} ended with {e['outcome']}, outside its documented families",
                          {"kind": "mutation", "api": e["api"], "outcome": e["outcome"], "occurrences": events[(e["api"], e["outcome"])],
                           "documented": verdict[i]["documented"]})
    run.extra["api_outcome_classes"] = {f"{a}:{o}": n for (a, o), n in sorted(events.items())}
    # named situations on the classified mutated calls
    for api, judge in (("verify_root", traces_root.judge), ("verify_delegation", traces_delegation.judge)):
        evl = [(ev, d) for a, ev, d in classified if a == api]
        if evl:
            traces = [{"id": i, "events": [ev]} for i, (ev, d) in enumerate(evl, 1)]
            conc = {i: [{"mutation": d}] for i, (ev, d) in enumerate(evl, 1)}
            judge(run, traces, conc, owns, "mutated-call")
    evl = [(ev, d) for a, ev, d in classified if a == "verify_signable"]
    if evl:
        traces = [{"id": i, "events": [ev]} for i, (ev, d) in enumerate(evl, 1)]
        conc = {i: [{"mutation": d}] for i, (ev, d) in enumerate(evl, 1)}
        traces_verify.judge(run, traces, conc, owns, label="mutated-call")
    run.extra["mutated_calls_classified_by_alpha"] = len(classified)
    # the clock: no outcome depends on it, whatever the dates inside the documents - frozen just before / at / after every date that occurs
    # in the arguments, and TICKING (0.6 s per read) from 0.3 s before it, so that two reads inside one call straddle the instant
    import calendar
    import datetime as _dt
    from ..fakeclock import FakeClock
    table = me.api_table(fx)
    nclock = 0

    def dates_in(x):
        if isinstance(x, dict):
            for v in x.values():
                yield from dates_in(v)
        elif isinstance(x, list):
            for v in x:
                yield from dates_in(v)
        elif isinstance(x, str) and len(x) == 20 and x.endswith("Z") and x[4] == "-":
            try:
                yield calendar.timegm(_dt.datetime.strptime(x, "%Y-%m-%dT%H:%M:%SZ").timetuple())
            except ValueError:
                pass
    # OpenPGP headers carry a signature-creation time (sub-packet 2): those instants matter too
    hdr_times = {int.from_bytes(h[i + 2:i + 6], "big") for h in gamma.HEADERS for i in range(len(h) - 6) if h[i:i + 2] == b"\x05\x02"}
    for name in ("verify_root", "verify_delegation", "verify_delegation:pkg", "verify_delegation:gpg", "verify_signable", "verify_signable:gpg",
                 "verify_gpg_signature", "checkformat_delegating_metadata", "checkformat_gpg_signature", "is_gpg_signature", "checkformat_any_signature",
                 "checkformat_utc_isoformat", "checkformat_signable"):
        fn, args = table[name][0], table[name][1]
        base = me.execute(name, fn, copy.deepcopy(args))
        instants = sorted(set(d for a in args for d in dates_in(a)) | hdr_times | {0, 951782400, 4102444800, 253402300799 - 86400 * 400})
        clock = FakeClock()
        try:
            for inst in instants:
                for off, tick in ((-1, 0), (0, 0), (1, 0), (-0.3, 0.6), (-86400 * 31, 0), (-0.05, 0.1)):
                    clock.set_epoch(max(0, inst + off), tick)
                    got = me.execute(name, fn, copy.deepcopy(args))
                    run.evaluations += 1
                    nclock += 1
                    if got != base:
                        run.violation(f"{name.split(':')[0]}: the outcome depends on the clock ({base} with the real clock, {got} with "
                                      f"{'a ticking' if tick else 'the'} clock near a date that occurs in its arguments)",
                                      {"kind": "clock", "api": name, "instant": inst, "offset": off, "tick": tick, "real_clock": base, "fake_clock": got})
        finally:
            clock.close()
        run._distinct.add("clock-" + name)
    run.extra["clock_independence_calls"] = nclock
    # the repository's own test-suite as a trace source
    from .. import traces_tests
    traces_tests.judge(run, lambda o: True)
    run.sample({"mutation_example": {"api": "verify_root", "position": "arg 1, path ('signed','version')", "kind": "inf"}})
    run.exhaustive = True
    run.assumptions.append("termination of the Python code is observed through a 10 s watchdog per call, not proved; objects with hostile dunder methods are out of scope")


def replay(payload):
    auth = lib.cct("authentication")
    c = payload.get("concrete")
    if payload.get("kind") == "verify_root" and c:
        out, exc, _ = lib.call(auth.verify_root, c["trusted"], c["offered"])
    elif payload.get("kind") == "verify_delegation" and c:
        out, exc, _ = lib.call(auth.verify_delegation, c["role"], c["untrusted"], c["trusted"], gpg=c["gpg"])
    elif payload.get("kind") == "verify_signable" and c:
        out, exc, _ = lib.call(auth.verify_signable, c["envelope"], c["authorized"], c["threshold"], gpg=c["gpg"])
    else:
        print("mutation findings are regenerated from the seed: ./check C13")
        return 0
    print(f"observed={out} exc={exc} allowed={payload['allowed']}")
    bad = owns({"observed": out, "allowed": payload["allowed"]})
    if bad:
        print("VIOLATION property=C13 replay=(this file)")
    return 1 if bad else 0
