"""C12 Verification is pure: no argument mutation, no state carried across calls."""
from __future__ import annotations

import copy
import json
import random

from .. import calls_engine as ce
from .. import lib, procs
from ..tlc import MachineryFailure

LEVEL = "model_checking"
MUTANTS = {"shallow_copy": "WrapIsolates", "shared_accumulator": "ResultIsFunction", "verdict_cache": "ResultIsFunction"}


def paths_of(x, prefix=()):
    """paths to every position whose PARENT is mutable (dict/list), also below tuples"""
    if isinstance(x, dict):
        for k in x:
            yield prefix + (k,)
            yield from paths_of(x[k], prefix + (k,))
    elif isinstance(x, tuple):
        for i in range(len(x)):
            yield from paths_of(x[i], prefix + (i,))
    elif isinstance(x, list):
        for i in range(len(x)):
            yield prefix + (i,)
            yield from paths_of(x[i], prefix + (i,))


def set_at(x, p, v):
    for k in p[:-1]:
        x = x[k]
    x[p[-1]] = v


def wrap_isolation(run):
    signing = lib.cct("signing")
    from ..twins import twin_canon
    base = {"a": 1, "l": [1, {"m": [2, {"n": {"o": [3]}}]}], "d": {"e": {"f": {"g": "h"}}}, "s": "str",
            "t": (1, [2, {"x": 3}], ({"y": [4]},), "z"), "lt": [(5, [6])]}      # tuples are a supported (JSON-serializable) payload type
    n = 0
    top_tuple = (1, [2, {"x": [3]}], {"d": {"e": [4]}}, ({"y": [5]},))          # the payload itself a tuple: immutable only at its top level
    top_list = [1, [2, {"x": [3]}], ({"y": [5]},)]
    for base in (base, top_tuple, top_list):
      for p in paths_of(base):
        for direction in ("original->wrapped", "wrapped->original"):
            orig = copy.deepcopy(base)
            before = twin_canon(orig)
            env = signing.wrap_as_signable(orig)
            n += 1
            if twin_canon(orig) != before:
                run.violation("wrap_as_signable modified its argument", {"kind": "wrap", "path": repr(p)})
            src, dst = (orig, env["signed"]) if direction == "original->wrapped" else (env["signed"], orig)
            dst_before = twin_canon(dst)
            set_at(src, p, "MUTATED")
            if twin_canon(dst) != dst_before:
                run.violation(f"after wrap_as_signable a change of the {direction.split('->')[0]} at depth {len(p)} shows through on the other side",
                              {"kind": "wrap", "path": repr(p), "direction": direction, "payload_type": type(base).__name__})
    run.evaluations += n
    run.extra["wrap_isolation_cases"] = n


def ordered_snapshot(x):
    """Value, insertion order and identity graph of a JSON-like structure."""
    ids = []

    def walk(v):
        if isinstance(v, (dict, list)):
            ids.append(id(v))
            for c in (v.values() if isinstance(v, dict) else v):
                walk(c)
    walk(x)
    return json.dumps(x, sort_keys=False, default=repr), ids


def scale_purity(run):
    """Large arguments: hundreds of authorized keys (unsorted), over a thousand signature entries and delegations.  Deep ordered
    snapshots of every argument around every call, and the verdict of an immediate repetition."""
    from .. import crypto, gamma, metadata
    from ..twins import twin_canon
    auth, common = lib.cct("authentication"), lib.cct("common")
    r = random.Random(run.seed * 101 + 9)
    keys = gamma.Keys(1100, run.seed, offset=9000)
    n = 0
    for nk in (9, 255, 256, 257, 300, 1100):
        ks = r.sample(range(1, 1101), nk)
        pubs = [keys.pub[k] for k in ks]                      # deliberately unsorted
        P = {"pkg": "x", "n": nk}
        Pb = twin_canon(P)
        hdr = gamma.HEADERS[0]
        signers = ks[: max(1, nk // 3)]
        raw = {"signatures": {keys.pub[k]: {"signature": keys.sign(k, Pb).hex()} for k in reversed(signers)}, "signed": P}
        dels = {"root": metadata.rule(list(pubs), max(1, nk // 4)), "key_mgr": metadata.rule(list(reversed(pubs)), 2),
                **{"zz-%04d" % i: metadata.rule(r.sample(pubs, min(3, nk)), 1) for i in range(nk)}}
        root1 = metadata.delegating_doc("root", 1, dels, r)
        root2 = metadata.delegating_doc("root", 2, dels, r)
        for doc in (root1, root2):
            doc["delegations"] = dict(reversed(list(doc["delegations"].items())))      # unsorted insertion order too
        b2 = twin_canon(root2)
        e1 = {"signatures": {}, "signed": root1}
        e2 = {"signatures": {keys.pub[k]: {"other_headers": hdr.hex(), "signature": keys.sign(k, crypto.gpg_digest(b2, hdr)).hex()} for k in signers}, "signed": root2}
        km = metadata.delegating_doc("key_mgr", 1, {"pkg_mgr": metadata.rule(list(pubs), 1)}, r)
        bk = twin_canon(km)
        ekm = {"signatures": {keys.pub[k]: {"signature": keys.sign(k, bk).hex()} for k in signers[:3]}, "signed": km}
        calls = [("verify_signable", auth.verify_signable, [raw, pubs, len(signers)], {}),
                 ("verify_signable", auth.verify_signable, [raw, pubs, len(signers) + 1], {}),
                 ("verify_signable(gpg)", auth.verify_signable, [e2, pubs, 1], {"gpg": True}),
                 ("verify_root", auth.verify_root, [e1, e2], {}),
                 ("verify_delegation", auth.verify_delegation, ["key_mgr", ekm, e1], {}),
                 ("verify_delegation", auth.verify_delegation, ["pkg_mgr", raw, ekm], {}),
                 ("checkformat_delegating_metadata", common.checkformat_delegating_metadata, [e1], {}),
                 ("checkformat_delegations", common.checkformat_delegations, [root1["delegations"]], {}),
                 ("checkformat_list_of_hex_keys", common.checkformat_list_of_hex_keys, [pubs], {}),
                 ("checkformat_signable", common.checkformat_signable, [e2], {})]
        for name, fn, args, kw in calls:
            before = [ordered_snapshot(a) for a in args]
            o1, x1, _ = lib.call(fn, *args, **kw)
            after = [ordered_snapshot(a) for a in args]
            o2, _, _ = lib.call(fn, *args, **kw)
            n += 2
            run._distinct.add(f"scale-{name}-{nk}-{len(run._distinct)}")
            if before != after:
                which = [i for i in range(len(args)) if before[i] != after[i]]
                run.violation(f"{name} modified an object passed to it (large arguments)",
                              {"kind": "scale_purity", "api": name, "authorized_keys": nk, "argument_positions_changed": which, "outcome": o1})
            if o1 != o2:
                run.violation(f"{name}: repeating the call with the same (large) arguments changes the verdict",
                              {"kind": "scale_purity", "api": name, "authorized_keys": nk, "first": o1, "second": o2})
    run.evaluations += n
    run.extra["scale_purity_calls"] = n


def schema_purity(run, quick):
    """Every document class of Schema.tla (valid, every single mutation, the unspecified classes such as integral-float versions or
    thresholds) in every argument position of the checker and the three verifiers: ordered deep snapshots before / after."""
    import collections
    from .. import schema_gamma
    auth, common = lib.cct("authentication"), lib.cct("common")
    r = run.tlc("Schema", "Schema_quick.cfg", expect_cases=True, timeout=3000)
    rr = random.Random(run.seed * 7 + 3)
    n = 0
    for case in (r.cases if not quick else r.cases[::2]):
        env = schema_gamma.build(case["doc"], rr)
        other = schema_gamma.build(case["doc"], rr)
        calls = [("checkformat_delegating_metadata", common.checkformat_delegating_metadata, [env], {}),
                 ("verify_root", auth.verify_root, [env, other], {}),
                 ("verify_delegation", auth.verify_delegation, [rr.choice(["root", "key_mgr", "nope"]), other, env], {"gpg": rr.random() < 0.5}),
                 ("verify_signable", auth.verify_signable, [env, [schema_gamma.KA, schema_gamma.KB], 1], {"gpg": rr.random() < 0.5})]
        for name, fn, args, kw in calls:
            try:
                before = [ordered_snapshot(a) for a in args]
            except (TypeError, ValueError, RecursionError):
                continue
            o1, _, _ = lib.call(fn, *args, **kw)
            after = [ordered_snapshot(a) for a in args]
            n += 1
            if before != after:
                muts = ", ".join(f"{f}={case['doc'][f]}" for f in case["muts"]) or "valid document"
                run.violation(f"{name} modified an object passed to it (document class: {muts})",
                              {"kind": "schema_purity", "api": name, "doc": case["doc"], "outcome": o1,
                               "argument_positions_changed": [i for i in range(len(args)) if before[i] != after[i]]})
        run._distinct.add("schema-purity-%d" % n)
    # mappings with side effects on look-up (defaultdict and friends) as trusted metadata: a failed look-up must not insert
    from .. import gamma, metadata
    from ..twins import twin_canon
    keys = gamma.Keys(3, run.seed, offset=9500)
    for factory in (lambda: collections.defaultdict(dict), lambda: collections.defaultdict(lambda: metadata.rule([keys.pub[1]], 1)),
                    lambda: collections.defaultdict(list), lambda: collections.OrderedDict(), lambda: collections.defaultdict(lambda: None)):
        for role in ("pkg_mgr", "nope", "key_mgr"):
            dels = factory()
            dels["root"] = metadata.rule([keys.pub[1]], 1)
            dels["key_mgr"] = metadata.rule([keys.pub[2]], 1)
            tdoc = metadata.delegating_doc("root", 1, {}, rr)
            tdoc["delegations"] = dels
            trusted = {"signatures": {}, "signed": tdoc}
            P = {"some": "payload"}
            un = {"signatures": {keys.pub[2]: {"signature": keys.sign(2, twin_canon(P)).hex()}}, "signed": P}
            for fn_name, fn, args in (("verify_delegation", auth.verify_delegation, [role, un, trusted]),
                                      ("verify_root", auth.verify_root, [trusted, {"signatures": {}, "signed": dict(tdoc, version=2)}]),
                                      ("checkformat_delegating_metadata", common.checkformat_delegating_metadata, [trusted])):
                before = [ordered_snapshot(a) for a in args]
                o1, _, _ = lib.call(fn, *args)
                o2, _, _ = lib.call(fn, *args)
                n += 2
                if [ordered_snapshot(a) for a in args] != before:
                    run.violation(f"{fn_name} modified an object passed to it (trusted delegations given as a {type(dels).__name__})",
                                  {"kind": "schema_purity", "api": fn_name, "role": role, "outcome": o1})
                if o1 != o2:
                    run.violation(f"{fn_name}: repeating the call changes the verdict (trusted delegations given as a {type(dels).__name__})",
                                  {"kind": "schema_purity", "api": fn_name, "role": role, "first": o1, "second": o2})
    run.evaluations += n
    run.extra["schema_purity_calls"] = n


def identity_independence(run, quick):
    """Verdicts depend on the VALUES of the arguments, not on object identity: every sampled (trusted, offered) pair of Root.tla and every
    (role, untrusted, trusted) call of Delegation.tla is executed with maximal sharing of equal parts between the two arguments (as after
    copy-and-edit) and again on deep copies; the two verdicts must be the same."""
    from .. import delegation_engine, gamma, root_engine, verify_engine
    from ..tlc import decode_case_line
    auth = lib.cct("authentication")
    n = 0
    for mod, cfg, eng in (("Root", "Root_emit_quick.cfg", root_engine), ("Delegation", "Delegation_emit_quick.cfg", delegation_engine)):
        rx = run.tlc(mod, cfg, raw_cases=True, expect_cases=True, timeout=3000)
        for batch in verify_engine.batches(rx.case_file, every=16 if quick else 2):
            for line in batch[::4]:
                case = decode_case_line(line)
                r = verify_engine._rng(run.seed + 77, line)
                args = eng.concretise(case, r, run.seed)
                if mod == "Root":
                    trusted, new = args
                    call = lambda t, u: lib.call(auth.verify_root, t, u)      # noqa: E731
                else:
                    role, new, trusted, gpg = args
                    call = lambda t, u: lib.call(auth.verify_delegation, role, u, t, gpg=gpg)      # noqa: E731
                if not (isinstance(new, dict) and isinstance(new.get("signed"), (dict, list)) and isinstance(trusted, dict)):
                    continue
                try:
                    shared_new = dict(new, signed=gamma.share_equal_parts(copy.deepcopy(new["signed"]), trusted))
                    o_shared = call(trusted, shared_new)[0]
                    o_copies = call(copy.deepcopy(trusted), copy.deepcopy(new))[0]
                except (TypeError, ValueError, RecursionError):
                    continue
                n += 2
                if o_shared != o_copies:
                    run.violation(f"verify_{'root' if mod == 'Root' else 'delegation'}: the verdict differs between arguments that share equal parts and deep copies of them "
                                  f"({o_shared} vs {o_copies})", {"kind": "identity", "api": mod, "case": case, "shared": o_shared, "copies": o_copies})
    run.evaluations += n
    run.extra["identity_independence_calls"] = n


def check(run):
    quick = run.tier == "quick"
    run.rule = ("Calls.tla (two-level heap, shared pool, two threads stepping through the verifier loop, caller-side mutation, wrap, sign) "
                "is model-checked exhaustively (3 mutants killed: shallow copy, shared accumulator, verdict cache); -simulate behaviours are "
                "replayed over a real pool: every call's verdict must equal the specification's function of the argument values at Begin, "
                "overlapping calls run as real threads under a deterministic line scheduler derived from the behaviour, deep snapshots "
                "(canonical bytes + identity graph) of every argument around every call; all <= 1-pre-emption and sampled 2-pre-emption line "
                "schedules for fixed call pairs over shared trusted metadata; the behaviours again in fresh interpreters per configuration; "
                "wrap isolation at every depth in both directions; distinct = behaviours + schedules")
    run.tlc("Calls", "Calls_quick.cfg" if quick else "Calls_thorough.cfg", timeout=1800)
    for m, exp in MUTANTS.items():
        run.mutant("Calls", f"Calls_mut_{m}.cfg", expect=exp, timeout=600)
    r = run.tlc("Calls", "Calls_sim.cfg", workers=1, simulate=f"num={300 if quick else 4000}", depth=40, seed=run.seed + 5, timeout=1800)
    seen, behaviours = set(), []
    for h in r.cases:
        k = json.dumps(h, sort_keys=True)
        if k not in seen and any(e["a"] == "end" for e in h):
            seen.add(k)
            behaviours.append(h)
    if not behaviours:
        raise MachineryFailure("no behaviours from Calls simulation")
    ncalls = 0
    for idx, h in enumerate(behaviours):
        bad, n, nc = ce.replay_behaviour(h, run.seed, idx, threaded=True)
        run.evaluations += n
        ncalls += nc
        run._distinct.add("beh%d" % idx)
        if not bad:
            run.traces_validated += 1
        for b in bad:
            run.violation("call history replay: " + b["why"], {"kind": "calls_behaviour", "behaviour": h, "index": idx, "discrepancy": b})
    run.sample({"behaviour": behaviours[0][:14]})
    run.extra["behaviours_replayed"] = len(behaviours)
    run.extra["verifier_calls_in_behaviours"] = ncalls
    run.extra["threaded_overlaps"] = sum(1 for h in behaviours if any(
        h[i]["a"] == "begin" and any(h[j]["a"] == "begin" for j in range(i + 1, len(h)) if not any(h[m]["a"] == "end" and h[m]["t"] == h[i]["t"] for m in range(i, j)))
        for i in range(len(h))))
    # every sequential history of 4 operations (one thread), enumerated exhaustively by TLC
    rs = run.tlc("Calls", "Calls_seq.cfg", timeout=1800)
    seq = {}
    for h in rs.cases:
        proj = [e for e in h if e["a"] != "step"]
        seq.setdefault(json.dumps(proj, sort_keys=True), h)
    hs = list(seq.values())
    if not quick:
        pass
    for idx, h in enumerate(hs):
        bad, n, nc = ce.replay_behaviour(h, run.seed, 100000 + idx, threaded=False)
        run.evaluations += n
        ncalls += nc
        run._distinct.add("seq%d" % idx)
        if not bad:
            run.traces_validated += 1
        for b in bad:
            run.violation("sequential call history replay: " + b["why"], {"kind": "calls_behaviour", "behaviour": h, "index": 100000 + idx, "discrepancy": b})
    run.extra["sequential_histories_replayed"] = len(hs)
    # no verifier modifies its arguments: a sample (every 8th batch) of the three verifiers' TLC enumerations, comparing deep snapshots
    from .. import delegation_engine, root_engine, verify_engine
    for mod, cfg, eng, what in (("Verify", "Verify_emit_quick.cfg", verify_engine, "verify_signable"), ("Root", "Root_emit_quick.cfg", root_engine, "verify_root"),
                                ("Delegation", "Delegation_emit_quick.cfg", delegation_engine, "verify_delegation")):
        rx = run.tlc(mod, cfg, raw_cases=True, expect_cases=True, timeout=3000)
        for o in eng.replay(run, rx, opts={"every": 8 if quick else 2}):
            if o.get("mutated"):
                run.violation(f"{what} modified an object passed to it (observed outcome {o['observed']})", {"kind": what, **{k: v for k, v in o.items() if k != "case"}})
    # histories over related inputs (both modes), judged call by call
    ce.related_input_histories(run, 600 if quick else 10000)
    # line-level pre-emption schedules
    ce.preemption_schedules(run, quick)
    # wrap isolation at every depth
    wrap_isolation(run)
    scale_purity(run)
    schema_purity(run, quick)
    identity_independence(run, quick)
    # Alias.tla: every sharing pattern of the two root rules' key lists x thresholds x signer sets, verdict = function of the values
    from .. import alias_engine
    run.tlc("Alias", "Alias.cfg", timeout=600)
    run.mutant("Alias", "Alias_mut_same_list_skip.cfg", expect="ValueDetermined", timeout=300)
    ra = run.tlc("Alias", "Alias.cfg", expect_cases=True, timeout=600)
    for b in alias_engine.replay(run, ra.cases if not quick else ra.cases[::3], persist=False):
        c = b["case"]
        run.violation(f"verify_root on a root pair whose key lists are {'the same object' if c['shared'] else 'separate objects'}: {b['observed']} where the values "
                      f"determine {b['expected']}", {"kind": "alias", **b})
    # configurations: the same histories, sequentially, in fresh interpreters
    sample = behaviours[: (60 if quick else 600)]
    for cfg in procs.CONFIGS:
        res = procs.run_job(run, {"task": "calls_behaviours", "behaviours": sample, "seed": run.seed}, cfg)
        for idx, rr in enumerate(res):
            run.evaluations += rr["n"]
            for b in rr["bad"]:
                run.violation(f"call history replay in configuration {cfg[0]}: " + b["why"], {"kind": "calls_behaviour", "behaviour": sample[idx], "index": idx, "config": cfg[0]})
    run.extra["configurations"] = [c[0] for c in procs.CONFIGS]
    run.assumptions.append("thread switches happen at Python line events in library code; calls into the cryptography extension are atomic for the scheduler")


def replay(payload):
    if payload.get("kind") == "calls_behaviour":
        bad, n, _ = ce.replay_behaviour(payload["behaviour"], payload["seed"], payload["index"], threaded=True)
        print(json.dumps(bad, default=repr)[:3000])
        if bad:
            print("VIOLATION property=C12 replay=(this file)")
        return 1 if bad else 0
    print("re-run ./check C12")
    return 0
