"""C17 CLI exit status and output reflect the library's verdict."""
from __future__ import annotations

import copy
import json
import os
import random
import re
import shutil
import subprocess
import sys
import tomllib

from .. import crypto, faults, gamma, lib, metadata
from ..core import REPO
from ..tlc import MachineryFailure
from ..traces_verify import oracle_verify
from ..twins import twin_canon

LEVEL = "model_checking"
MUTANTS = {"drop_status": "ExitReflectsVerdict", "swallow": "ExitReflectsVerdict", "abort_returns_none": "ZeroOnlyIfSigned",
           "dispatch_on_trusted": "RootDispatch", "lookup_swallowed": "ZeroOnlyIfSigned"}
SUCCESS = re.compile(r"success|verified", re.I)
FAILURE = re.compile(r"fail|error|abort|traceback", re.I)


def reports_success(text):
    """Some LINE of the output reports success (and does not negate it): a rejection must not be accompanied by such a line, even when a
    failure message follows."""
    for line in text.splitlines():
        if re.search(r"(?<!un)success|\bverified\b", line, re.I) and not re.search(r"\bnot\b|\bno\b|fail|error|unsuccess|could|cannot|can't|without|abort|traceback|exception", line, re.I):
            return True
    return False

SSLIB_STANDIN = {
    "securesystemslib/__init__.py": "",
    "securesystemslib/formats.py": "GPG_ED25519_PUBKEY_METHOD_STRING = 'pgp+eddsa-ed25519'\nGPG_HASH_ALGORITHM_STRING = 'pgp+SHA2'\n",
    "securesystemslib/gpg/__init__.py": "",
    "securesystemslib/gpg/functions.py": (
        "import os, sys\nsys.path.insert(0, os.environ['CCTVERIF_HARNESS'])\n"
        "from cctverif import crypto\nfrom cctverif.faults import StubGpg, FP\n"
        "_s = StubGpg(bytes.fromhex(os.environ['CCTVERIF_GPG_SEED']), FP, fail=os.environ.get('CCTVERIF_GPG_FAIL') or None)\n"
        "create_signature = _s.create_signature\nexport_pubkey = _s.export_pubkey\n"),
}


def make_pair(utype, verdict, r, keys):
    """Concrete (trusted, untrusted) file contents for a file-pair class; values may be bytes (raw file content)."""
    pub = keys.pub
    hdr = gamma.HEADERS[0]

    def gsign(doc, ks):
        b = twin_canon(doc)
        return {pub[k]: {"other_headers": hdr.hex(), "signature": keys.sign(k, crypto.gpg_digest(b, hdr)).hex()} for k in ks}

    def rsign(doc, ks):
        b = twin_canon(doc)
        return {pub[k]: {"signature": keys.sign(k, b).hex()} for k in ks}
    root1 = metadata.delegating_doc("root", 1, {"root": metadata.rule([pub[1]], 1), "key_mgr": metadata.rule([pub[2]], 1)}, r)
    trusted = {"signatures": gsign(root1, [1]), "signed": root1}
    if utype == "none":
        un = r.choice([b"{ not json", b"", b"[1, 2, 3]", json.dumps({"signatures": {}}).encode(), json.dumps({"signatures": {}, "signed": {"no": "type"}}).encode(), None])
        return trusted, un
    if utype == "root":
        ver = 3 if verdict == "MetadataVerificationError" and r.random() < .5 else 1 if verdict == "MetadataVerificationError" else 2
        doc = metadata.delegating_doc("root", ver, {"root": metadata.rule([pub[1], pub[3]], 1), "key_mgr": metadata.rule([pub[2]], 1)}, r)
        if verdict in ("TypeError", "ValueError"):
            x = r.randrange(3)
            if x == 0:
                doc["version"] = 0
            elif x == 1:
                trusted["signed"].pop("expiration")
            else:
                # the trusted file is NOT root metadata (but happens to delegate a role called "root"), the untrusted root is
                # signed so that a mere delegation check would pass: only the root-chain check rejects this pair
                kmd = metadata.delegating_doc("key_mgr", 1, {"root": metadata.rule([pub[1]], 1), "pkg_mgr": metadata.rule([pub[3]], 1)}, r)
                trusted = {"signatures": rsign(kmd, [2]), "signed": kmd}
                return trusted, {"signatures": rsign(doc, [1]), "signed": doc}
        if verdict == "SignatureError" and r.random() < .4:
            # signed by the right key, validly, but with the raw (non-OpenPGP) kind of signature that only non-root roles use
            return trusted, {"signatures": rsign(doc, [1]), "signed": doc}
        if verdict == "MetadataVerificationError" and r.random() < .3:
            return trusted, {"signatures": rsign(doc, [1]), "signed": doc}       # wrong version AND raw signatures
        signers = [] if verdict == "SignatureError" and r.random() < .5 else [2] if verdict == "SignatureError" else [1]
        return trusted, {"signatures": gsign(doc, signers), "signed": doc}
    if utype == "key_mgr":
        doc = metadata.delegating_doc("key_mgr", 1, {"pkg_mgr": metadata.rule([pub[3]], 1)}, r)
        un = {"signatures": rsign(doc, [1] if verdict == "SignatureError" else [2]), "signed": doc}
        if verdict == "UnknownRoleError":
            trusted["signed"]["delegations"].pop("key_mgr")
            trusted["signatures"] = gsign(trusted["signed"], [1])
        if verdict in ("TypeError", "ValueError"):
            trusted["signed"]["delegations"]["root"]["threshold"] = 0
        return trusted, un
    # other: any signed JSON carrying signed.type, verified through the delegation of that name
    km = metadata.delegating_doc("key_mgr", 1, {"pkg_mgr": metadata.rule([pub[3]], 1)}, r)
    trusted = {"signatures": rsign(km, [2]), "signed": km}
    doc = {"type": "pkg_mgr", "info": {"name": "x", "n": r.randint(0, 99)}}
    un = {"signatures": rsign(doc, [2] if verdict == "SignatureError" else [3]), "signed": doc}
    if verdict == "UnknownRoleError":
        x = r.randrange(3)
        if x == 0:
            trusted["signed"]["delegations"] = {"other_role": metadata.rule([pub[3]], 1)}
        elif x == 1:
            # the declared type is a near-miss spelling of a role that IS delegated, and the signatures would satisfy that role
            doc["type"] = near_miss("pkg_mgr", r)
            un = {"signatures": rsign(doc, [3]), "signed": doc}
        else:
            # ... or of "root" / "key_mgr", with everything else a valid next root / key manager document
            role = r.choice(["root", "key_mgr"])
            if role == "root":
                doc = metadata.delegating_doc("root", 2, {"root": metadata.rule([pub[1]], 1), "key_mgr": metadata.rule([pub[2]], 1)}, r)
                doc["type"] = near_miss("root", r)
                return {"signatures": gsign(root1, [1]), "signed": root1}, {"signatures": gsign(doc, [1]), "signed": doc}
            doc = metadata.delegating_doc("key_mgr", 1, {"pkg_mgr": metadata.rule([pub[3]], 1)}, r)
            doc["type"] = near_miss("key_mgr", r)
            return {"signatures": gsign(root1, [1]), "signed": root1}, {"signatures": rsign(doc, [2]), "signed": doc}
    if verdict in ("TypeError", "ValueError"):
        trusted["signed"]["type"] = "unsupported"
    return trusted, un


def near_miss(role, r):
    """Another string that a lenient comparison (case folding, Unicode compatibility normalisation, trimming) would equate with role."""
    fw = lambda ch: chr(ord(ch) + 0xFEE0) if "!" <= ch <= "~" else ch      # noqa: E731  full-width form
    i = r.randrange(len(role))
    return r.choice([role[:i] + fw(role[i]) + role[i + 1:], "".join(fw(c) for c in role), role.upper(), role.capitalize(), role + " ", " " + role,
                     role + "\u200b", role.replace("_", "\uff3f") if "_" in role else role + "\u00a0", role.replace("r", "\u24e1", 1), role + "\x00"])


def library_verdict(tpath, upath):
    """The library's own outcome on the two files, in process, dispatched as the specification says."""
    common, auth = lib.cct("common"), lib.cct("authentication")
    try:
        un = common.load_metadata_from_file(upath)
        tr = common.load_metadata_from_file(tpath)
        ty = un["signed"]["type"]
    except Exception:  # noqa: BLE001
        return "none", "unreadable"
    ut = ty if ty in ("root", "key_mgr") else "other"
    if ty == "root":
        out, _, _ = lib.call(auth.verify_root, tr, un)
    else:
        out, _, _ = lib.call(auth.verify_delegation, ty, un, tr)
    return ut, lib.family(out)


def write(path, content):
    if content is None:
        return
    with open(path, "wb") as f:
        f.write(content if isinstance(content, bytes) else twin_canon(content))


def console_script(workdir):
    with open(os.path.join(REPO, "pyproject.toml"), "rb") as f:
        scripts = tomllib.load(f).get("project", {}).get("scripts", {})
    target = scripts.get("conda-content-trust")
    if not target:
        return None
    mod, fn = target.split(":")
    p = os.path.join(workdir, "conda-content-trust")
    with open(p, "w") as f:       # pip's standard console-script wrapper
        f.write(f"#!{sys.executable}\nimport sys\nfrom {mod} import {fn}\nif __name__ == '__main__':\n    sys.exit({fn}())\n")
    os.chmod(p, 0o755)
    return p


FAKECLOCK_SITE = os.path.join(os.path.dirname(os.path.dirname(os.path.abspath(__file__))), "fakeclock_site")
CLOCK_INSTANTS = [(2020, 1, 31, 43200), (2020, 3, 31, 0), (2027, 1, 31, 1), (2027, 10, 31, 86399), (2028, 2, 29, 43200), (2026, 12, 31, 86399), (2027, 5, 31, 3600),
                  (2021, 7, 13, 20805), (2024, 12, 31, 86399), (1999, 12, 31, 86399)]
CONSOLE_SCRIPT = {"path": None}      # written once, before any worker thread forks (avoids ETXTBSY)


def run_entry(entry, argv, workdir, env_extra=None, tty=False):
    env = {k: v for k, v in os.environ.items() if not k.startswith("PYTHON")}
    env.update({"PYTHONPATH": REPO, "PYTHONIOENCODING": "utf-8", "PYTHONDONTWRITEBYTECODE": "1"})
    if env_extra:
        env["PYTHONPATH"] = env_extra.pop("PYTHONPATH_PREFIX", "") + os.pathsep + REPO if "PYTHONPATH_PREFIX" in env_extra else REPO
        env.update(env_extra)
    if entry == "in_process":
        code = ("import sys, json\nfrom conda_content_trust.cli import cli\n"
                "try:\n    r = cli(sys.argv[1:])\nexcept SystemExit as e:\n    r = ('exit', e.code)\n"
                "print('\\n@@RETURN ' + json.dumps(r))\nsys.exit(0)\n")
        p = subprocess.run([sys.executable, "-W", "ignore", "-c", code] + argv, cwd=workdir, env=env, capture_output=True, text=True, timeout=120)
        m = re.search(r"@@RETURN (.*)", p.stdout)
        if not m:
            return 1, p.stdout + p.stderr      # an exception escaped cli(): the caller sees an error
        ret = json.loads(m.group(1))
        if isinstance(ret, list):
            ret = ret[1]
        status = 0 if ret in (None, 0, False) else 1
        return status, p.stdout.replace(m.group(0), "") + p.stderr
    if entry == "console_script":
        cmd = [CONSOLE_SCRIPT["path"]] + argv
    elif entry == "python_m_package":
        cmd = [sys.executable, "-W", "ignore", "-m", "conda_content_trust"] + argv
    else:
        cmd = [sys.executable, "-W", "ignore", "-m", "conda_content_trust.cli"] + argv
    if tty:
        return run_on_pty(cmd, workdir, env)
    p = subprocess.run(cmd, cwd=workdir, env=env, capture_output=True, text=True, timeout=120)
    return p.returncode, p.stdout + p.stderr


def run_on_pty(cmd, workdir, env):
    """The command with stdout and stderr attached to a pseudo-terminal, as when an operator runs it by hand."""
    import pty
    import select
    master, slave = pty.openpty()
    try:
        p = subprocess.Popen(cmd, cwd=workdir, env=dict(env, TERM="xterm"), stdin=subprocess.DEVNULL, stdout=slave, stderr=slave, close_fds=True)
    finally:
        os.close(slave)
    chunks = []
    import time
    deadline = time.time() + 120
    while time.time() < deadline:
        rl, _, _ = select.select([master], [], [], 0.2)
        if rl:
            try:
                data = os.read(master, 65536)
            except OSError:
                break
            if not data:
                break
            chunks.append(data)
        elif p.poll() is not None:
            break
    try:
        rc = p.wait(timeout=10)
    except subprocess.TimeoutExpired:
        p.kill()
        rc = p.wait()
    os.close(master)
    return rc, b"".join(chunks).decode("utf-8", "replace")


def check(run):
    quick = run.tier == "quick"
    run.rule = ("Cli.tla enumerates entry point x command x (declared type of the untrusted file x library verdict | signing outcome); every "
                "case is run as a real process (console script regenerated from pyproject.toml, python -m package, python -m cli module, "
                "in-process cli()) on its own copies of concrete files; the library's verdict is taken from the same files in process; "
                "exit status zero and a success message iff TLC's specification says so; distinct = entry x file-pair/signing class")
    for m, exp in MUTANTS.items():
        run.mutant("Cli", f"Cli_mut_{m}.cfg", expect=exp, timeout=300)
    r = run.tlc("Cli", "Cli.cfg", expect_cases=True, timeout=600, workers=4)
    table = {}
    for c in r.cases:
        table[(c["entry"], c["cmd"], c["utype"], c["verdict"], c["signout"])] = c
    rr = random.Random(run.seed)
    keys = gamma.Keys(3, run.seed, offset=800)
    reps = 3 if quick else 8
    jobs = []
    root = os.path.join(run.scratch, "cli")
    os.makedirs(root, exist_ok=True)
    sslib_dir = os.path.join(root, "fake-sslib")
    for rel, src in SSLIB_STANDIN.items():
        os.makedirs(os.path.dirname(os.path.join(sslib_dir, rel)), exist_ok=True)
        with open(os.path.join(sslib_dir, rel), "w") as f:
            f.write(src)
    harness_dir = os.path.dirname(os.path.dirname(os.path.dirname(os.path.abspath(__file__))))
    CONSOLE_SCRIPT["path"] = console_script(root)
    if CONSOLE_SCRIPT["path"] is None:
        run.violation("pyproject.toml no longer declares the conda-content-trust console script", {"kind": "cli"})
    n = 0
    for c in table.values():      # (TLC re-evaluates Exit while checking liveness: the table is the deduplicated set)
        if c["entry"] == "console_script" and CONSOLE_SCRIPT["path"] is None:
            continue
        for rep in range(reps):
            n += 1
            wd = os.path.join(root, f"case{n}")
            os.makedirs(wd)
            jobs.append((c, wd))
    import concurrent.futures as cf

    def one(job):
        c, wd = job
        r2 = random.Random(hash((run.seed, json.dumps(c, sort_keys=True), wd)) & 0xFFFFFFFF)
        entry, cmd = c["entry"], c["cmd"]
        res = {"case": c, "problems": [], "n": 1}
        if cmd == "verify-metadata":
            trusted, un = make_pair(c["utype"], c["verdict"], r2, keys)
            tp, up = os.path.join(wd, "trusted.json"), os.path.join(wd, "untrusted.json")
            write(tp, trusted)
            write(up, un)
            ut, lv = library_verdict(tp, up)
            exp = table.get((entry, cmd, ut, lv, "signed"))
            if exp is None:
                exp = {"zero": False, "said": "traceback", "verdict": lv, "utype": ut}     # internal error in the library: any non-zero status
            res["lib"] = (ut, lv)
            if (ut, lv) != (c["utype"], c["verdict"]) and not (c["verdict"] in ("TypeError", "ValueError") and lv in ("TypeError", "ValueError")):
                res["drift"] = f"file pair built for ({c['utype']}, {c['verdict']}) is judged ({ut}, {lv}) by the library"
            # the command's verdict is the library's whatever the calendar says: half of the runs under a clock frozen at a day-31, a leap day,
            # the last second of a year ... (the library's verdict above was taken under the real clock; it does not read the clock)
            env_clock = None
            if r2.random() < 0.5:
                import calendar
                y, mo, d, sec = r2.choice(CLOCK_INSTANTS)
                env_clock = {"CCTVERIF_HARNESS": harness_dir, "PYTHONPATH_PREFIX": FAKECLOCK_SITE,
                             "CCTVERIF_FAKE_NOW": "%d:%s" % (calendar.timegm((y, mo, d, 0, 0, 0)) + sec, r2.choice(["0", "0", "0.7"]))}
            on_tty = entry != "in_process" and r2.random() < 0.35          # ... and a third of them on a terminal instead of a pipe
            status, text = run_entry(entry, ["verify-metadata", tp, up], wd, env_clock, tty=on_tty)
            if on_tty:
                entry = entry + " (on a terminal)"
            if env_clock:
                entry = entry + " (clock at %04d-%02d-%02d)" % (y, mo, d)
            if (status == 0) != exp["zero"]:
                res["problems"].append((f"verify-metadata via {entry}: exit status {'zero' if status == 0 else 'non-zero'} although the library's verdict on the same files is {lv}",
                                        {"status": status, "output": text[-1500:], "trusted": repr(trusted)[:3000], "untrusted": repr(un)[:3000]}))
            if exp["zero"] and not SUCCESS.search(text):
                res["problems"].append((f"verify-metadata via {entry}: acceptance without a success message", {"output": text[-1500:]}))
            if not exp["zero"] and (SUCCESS.search(text) and not FAILURE.search(text) or reports_success(text)):
                res["problems"].append((f"verify-metadata via {entry}: success message on a rejection ({lv})", {"output": text[-1500:]}))
        elif cmd == "sign-artifacts":
            so = c["signout"]
            seed = crypto.seed_for(66, run.seed)
            shape = {"pk": ["a1", "a2"], "cd": ["c1"], "meta": {"a1": "m1", "a2": "m2", "c1": "m1"}, "pre": "stale_gone", "extra": True}
            doc, metas = faults.build_repodata(shape, r2)
            rp, kp = os.path.join(wd, "repodata.json"), os.path.join(wd, "key.pri")
            if so != "missing_repodata":
                write(rp, b"{ nope" if so == "bad_repodata" else doc)
            if so != "missing_key_file":
                with open(os.open(kp, os.O_WRONLY | os.O_CREAT | os.O_TRUNC, 0o600), "w") as f:      # owner-only, as an operator would keep a private key
                    f.write("this is not a key\n" if so == "bad_key_file" else r2.choice([seed.hex(), seed.hex().upper() + "\n", "  " + seed.hex()]))
            before = open(rp, "rb").read() if os.path.exists(rp) else None
            status, text = run_entry(entry, ["sign-artifacts", rp, kp], wd)
            after = open(rp, "rb").read() if os.path.exists(rp) else None
            signed = False
            try:
                new = json.loads(after)
                pubhex = crypto.fast_public(seed).hex()
                arts = {**new.get("packages", {}), **new.get("packages.conda", {})}
                signed = bool(arts) and set(new.get("signatures", {})) == set(arts) and all(
                    oracle_verify(pubhex, twin_canon(md), new["signatures"][a][pubhex]["signature"]) for a, md in arts.items())
            except Exception:  # noqa: BLE001
                signed = False
            res["lib"] = ("sign-artifacts", "signed" if signed else "not signed")
            if status == 0 and not signed:
                res["problems"].append((f"sign-artifacts via {entry}: exit status zero although nothing was signed ({so})", {"output": text[-1500:]}))
            if status != 0 and signed and c["zero"]:
                res["problems"].append((f"sign-artifacts via {entry}: non-zero exit status although the file was signed", {"output": text[-1500:]}))
            if so == "signed" and not signed:
                res["problems"].append((f"sign-artifacts via {entry}: valid key and repodata but the file carries no valid signatures", {"output": text[-1500:]}))
        elif cmd == "gpg-key-lookup":
            so = c["signout"]
            seed = crypto.seed_for(68, run.seed)
            pubhex = crypto.fast_public(seed).hex()
            env_extra = {"CCTVERIF_HARNESS": harness_dir, "CCTVERIF_GPG_SEED": seed.hex()}
            if so != "no_sslib":
                env_extra["PYTHONPATH_PREFIX"] = sslib_dir
            if so == "key_lookup_fails":
                env_extra["CCTVERIF_GPG_FAIL"] = "lookup"
            fpr = r2.choice([faults.FP, faults.FP.upper(), " ".join(faults.FP[i:i + 4] for i in range(0, 40, 4))]) if so != "bad_fingerprint" else \
                r2.choice(["xyz", faults.FP[:-1], faults.FP + "0", "g" * 40, ""])
            status, text = run_entry(entry, ["gpg-key-lookup", fpr], wd, env_extra)
            printed = pubhex in text
            res["lib"] = ("gpg-key-lookup", "printed" if printed else "not printed")
            if status == 0 and not (so == "found" and printed):
                res["problems"].append((f"gpg-key-lookup via {entry}: exit status zero although the key's value was not looked up and printed ({so})", {"output": text[-1500:]}))
            if so == "found" and not (status == 0 and printed):
                res["problems"].append((f"gpg-key-lookup via {entry}: key available, but status={status} and the value was {'printed' if printed else 'not printed'}", {"output": text[-1500:]}))
        else:  # gpg-sign through a stand-in securesystemslib importable only in this subprocess
            so = c["signout"]
            seed = crypto.seed_for(67, run.seed)
            pubhex = crypto.fast_public(seed).hex()
            md = {"signatures": {}, "signed": metadata.delegating_doc("root", 1, {"root": metadata.rule([pubhex], 1), "key_mgr": metadata.rule([pubhex], 1)}, r2)}
            fp = os.path.join(wd, "root.json")
            write(fp, b"[1, 2" if so == "bad_repodata" else ({"signed": md["signed"]} if so == "not_signable" else md))
            env_extra = {"CCTVERIF_HARNESS": harness_dir, "CCTVERIF_GPG_SEED": seed.hex()}
            if so != "no_sslib":
                env_extra["PYTHONPATH_PREFIX"] = sslib_dir
            if so == "signer_fails":
                env_extra["CCTVERIF_GPG_FAIL"] = "signer"
            status, text = run_entry(entry, ["gpg-sign", r2.choice([faults.FP, faults.FP.upper()]), fp], wd, env_extra)
            signed = False
            try:
                new = json.loads(open(fp, "rb").read())
                ent = new["signatures"][pubhex]
                signed = oracle_verify(pubhex, crypto.gpg_digest(twin_canon(new["signed"]), bytes.fromhex(ent["other_headers"])), ent["signature"])
            except Exception:  # noqa: BLE001
                signed = False
            res["lib"] = ("gpg-sign", "signed" if signed else "not signed")
            if status == 0 and not signed:
                res["problems"].append((f"gpg-sign via {entry}: exit status zero although the file was not signed ({so})", {"output": text[-1500:]}))
            if so == "signed" and not (signed and status == 0):
                res["problems"].append((f"gpg-sign via {entry}: signer available and metadata signable, but status={status} signed={signed}", {"output": text[-1500:]}))
        shutil.rmtree(wd, ignore_errors=True)
        return res

    with cf.ThreadPoolExecutor(max_workers=16) as ex:
        results = list(ex.map(one, jobs))
    for res in results:
        c = res["case"]
        run.evaluations += 1
        run._distinct.add(json.dumps([c["entry"], c["cmd"], c["utype"], c["verdict"], c["signout"]]))
        if "drift" in res:
            run.note_drift(res["drift"])
        if not res["problems"]:
            run.traces_validated += 1
        for what, detail in res["problems"]:
            run.violation(what, {"kind": "cli", "case": c, **detail})
    run.sample({"case": results[0]["case"], "library_verdict_on_files": results[0].get("lib")})
    run.exhaustive = True
    run.assumptions.append("the console script is regenerated from pyproject.toml's [project.scripts] entry with pip's standard wrapper (hatchling is not installed); "
                           "gpg-sign runs against a stand-in securesystemslib package (harness code) importable only inside the child process")


def replay(payload):
    print(json.dumps(payload.get("case")), "\n", payload.get("output"))
    print("re-run ./check C17 (files are regenerated from the seed)")
    return 0
