"""C02 Threshold completeness (DESIGN section 6, C02)."""
from __future__ import annotations

import itertools
import json
import os
import random

from .. import lib, procs, traces_verify
from .. import verify_engine as ve
from ..core import REPO

LEVEL = "model_checking"
COMPLETE_MUTANTS = ["breakonbad", "gt"]


def owns(o):
    """C02 owns: enough valid authorized signers (Allowed = {accept}) but the code does not accept."""
    if not o.get("must_ok", True):
        return True      # a key the library's own signer was asked to sign with is not among the valid signers (independent oracle)
    return o["allowed"] == ["accept"] and o["observed"] != "accept"


def check(run):
    quick = run.tier == "quick"
    run.rule = ("every initial state of Verify.tla concretised (real keys, independent signers, shuffled entry order, junk of "
                "every kind incl. non-ASCII and lone surrogates) and run through verify_signable under UTF-8 and ASCII "
                "stdout sinks; accepted cases re-run in fresh interpreters per configuration (pre-import set, stdout "
                "encoding/kind, hash seed, locale); library-signed envelopes and shipped fixtures as traces judged by "
                "Trace_Verify.tla; non-trivial = non-empty signature map")
    run.tlc("Verify", "Verify_quick.cfg", timeout=900)
    for m in COMPLETE_MUTANTS:
        run.mutant("Verify", f"Verify_mut_{m}.cfg", expect="Complete", timeout=600)
    r = run.tlc("Verify", "Verify_emit_quick.cfg" if quick else "Verify_emit_thorough.cfg",
                raw_cases=True, expect_cases=True, timeout=3000)
    bad = ve.replay(run, r, opts={"encodings": ["ascii"] if quick else ["ascii", "latin-1"]})
    run.exhaustive = True
    for o in bad:
        if owns(o):
            run.violation(ve.coarse_sig(o), {"kind": "verify_signable", "fine_signature": ve.sig_of(o), **o})
        else:
            run.note_drift("outside Allowed but owned by another property: " + ve.coarse_sig(o))
    # accepted cases in fresh interpreters, one per configuration
    rr = random.Random(run.seed)
    with open(r.case_file) as f:
        acc = [ln for ln in f if '\\"allowed\\":[\\"accept\\"]' in ln]
    rr.shuffle(acc)
    sample = acc[: (150 if quick else 1500)]
    for cfg in procs.CONFIGS:
        res = procs.run_job(run, {"task": "verify_cases", "lines": sample, "seed": run.seed}, cfg)
        run.evaluations += len(res)
        for o in res:
            if lib.family(o["observed"]) not in o["allowed"]:
                if owns(o):
                    run.violation(ve.coarse_sig(o), {"kind": "verify_signable", "config": cfg[0], **o})
                else:
                    run.note_drift("subprocess: " + ve.coarse_sig(o))
    run.extra["configurations"] = [c[0] for c in procs.CONFIGS]
    # traces: random adversarial envelopes + the library's own signers + shipped fixtures
    traces_verify.random_traces(run, n=1500 if quick else 30000, owner=owns)
    traces_verify.library_signed_traces(run, n=300 if quick else 5000, owner=owns)
    traces_verify.big_envelopes(run, n=12 if quick else 200, owner=owns)
    traces_verify.inplace_histories(run, n=300 if quick else 5000, owner=owns)
    traces_verify.fixture_traces(run, owner=owns)
    # the same completeness through the delegation rule, with aliased arguments (a root checked against its own rules: one object twice)
    from .. import traces_delegation
    traces_delegation.aliased_traces(run, 200 if quick else 3000, owns)


def replay(payload):
    c = payload["concrete"]
    out, exc, printed = lib.call(lib.cct("authentication").verify_signable, c["envelope"], c["authorized"],
                                 c["threshold"], gpg=c["gpg"], encoding=payload.get("encoding", "utf-8")
                                 if payload.get("encoding") in ("utf-8", "ascii", "latin-1") else "utf-8")
    print(f"observed={out} exc={exc} allowed={payload['allowed']}")
    bad = payload["allowed"] == ["accept"] and out != "accept"
    if bad:
        print("VIOLATION property=C02 replay=(this file)")
    return 1 if bad else 0
