"""C11 Repodata artifact signing is complete, faithful and client-verifiable."""
from __future__ import annotations

import json
import os
import random
import shutil
import tempfile

from .. import faults, inplace_engine as ie, lib, procs
from ..core import REPO

LEVEL = "model_checking"
MUTANTS = {"keep_stale": "DomainExact", "skip_conda": "DomainExact", "sign_name": "OwnMetadata"}
BIG_NAMES = ["a%d" % i for i in range(1, 26)] + ["c%d" % i for i in range(1, 26)]


def sig(ev, why):
    d = ev.get("doc") or {}
    return (f"repodata signing ({ev['proc']}{' in configuration ' + ev['config'] if ev.get('config') else ''}): {why} [packages={len(d.get('pk') or [])} "
            f"conda={'none' if d.get('cd') is None else len(d['cd'])} pre-existing-signatures={d.get('pre')} extra-fields={d.get('extra')}]")


def gen_big_cases(seed, n):
    r = random.Random(seed * 13 + 1)
    cases = []
    for i in range(n):
        npk, ncd = r.randint(0, 25), r.choice([None] + list(range(0, 26)))
        pk = ["a%d" % j for j in r.sample(range(1, 26), npk)]
        cd = None if ncd is None else ["c%d" % j for j in r.sample(range(1, 26), ncd)]
        nm = r.randint(1, 50)
        meta = {a: "m%d" % r.randint(1, nm) for a in BIG_NAMES}
        cases.append({"proc": r.choice(["repodata", "cli_sign"]), "input": "ok",
                      "doc": {"pk": sorted(pk), "cd": None if cd is None else sorted(cd), "meta": meta,
                              "pre": r.choice(["absent", "empty", "stale_gone", "stale_present", "stale_own_key", "current_own_key", "junk"]),
                              "extra": r.random() < .5, "rich": i % 2 == 0}})
    return cases


def exec_big_cases(cases, workdir, seed):
    os.makedirs(workdir, exist_ok=True)
    events, problems = [], []
    for case in cases:
        ev, tr, before, after, ctx = faults.run_case(case, workdir, seed)
        if ev["completed"]:
            res, probs = ie.result_alpha(case, ctx, before, after, workdir, seed)
            ev["result"] = res
            problems += [{"case": case, "problem": p} for p in probs]
        else:
            ev["result"] = {"names": [], "metas": []}
        ev["doc"] = {k: v for k, v in case["doc"].items() if k != "rich"}
        events.append([ev, 1, {"case": case, "fault_at": None, "outcome": ev["outcome"]}])
    return events, problems


def task_inplace_cases(job):
    """subworker task: the same documents signed in a fresh interpreter configuration (locale, encodings, environment)."""
    events, problems = exec_big_cases(job["cases"], job["workdir"], job["seed"])
    return {"events": events, "problems": problems}


def big_documents(run, n):
    """Documents with up to 25+25 artifacts carrying arbitrary JSON metadata, in this process and in every interpreter configuration."""
    cases = gen_big_cases(run.seed, n)
    events, problems = exec_big_cases(cases, os.path.join(run.scratch, "big"), run.seed)
    run.evaluations += len(cases)
    per = max(6, n // 4)
    for i, cfg in enumerate(procs.CONFIGS):
        sub = cases[(i * per) % max(1, n - per):][:per]
        res = procs.run_job(run, {"task": "inplace_cases", "cases": sub, "seed": run.seed, "workdir": os.path.join(run.scratch, "big-" + cfg[0]),
                                  "task_modules": ["cctverif.props.c11"]}, cfg)
        run.evaluations += len(sub)
        for ev, k, conc in res["events"]:
            ev["config"] = conc["config"] = cfg[0]
            events.append([ev, k, conc])
        for pr in res["problems"]:
            pr["problem"] = f"[{cfg[0]}] " + pr["problem"]
            problems.append(pr)
    run.extra["configurations"] = [c[0] for c in procs.CONFIGS]
    return events, problems


def shipped_samples(run):
    """The repository's own repodata samples: sign a scratch copy, check canonical form, domain and client-side verification."""
    signing = lib.cct("signing")
    from .. import crypto, metadata
    from ..traces_verify import oracle_verify
    from ..twins import twin_canon
    out = []
    key = crypto.seed_for(88, run.seed)
    pub = crypto.fast_public(key).hex()
    for name in ("repodata_sample.json", "repodata_short_signed_sample.json"):
        src = os.path.join(REPO, "tests", "testdata", name)
        if not os.path.exists(src):
            continue
        dst = os.path.join(run.scratch, "sample-" + name)
        shutil.copy(src, dst)
        with open(src, "rb") as f:
            orig = json.load(f)
        signing.sign_all_in_repodata(dst, key.hex())
        run.evaluations += 1
        with open(dst, "rb") as f:
            data = f.read()
        new = json.loads(data)
        arts = {**orig.get("packages", {}), **orig.get("packages.conda", {})}
        if data != twin_canon(new):
            out.append((name, "output not canonical"))
        if set(new["signatures"]) != set(arts):
            out.append((name, "signatures section does not have exactly one entry per artifact"))
        if twin_canon({k: v for k, v in new.items() if k != "signatures"}) != twin_canon({k: v for k, v in orig.items() if k != "signatures"}):
            out.append((name, "fields other than signatures changed"))
        for a, md in arts.items():
            ent = new["signatures"].get(a, {}).get(pub)
            if not ent or not oracle_verify(pub, twin_canon(md), ent["signature"]):
                out.append((name, f"entry for {a} is not a valid signature over its own metadata"))
                break
    return out


def check(run):
    quick = run.tier == "quick"
    run.rule = ("InPlace.tla enumerates every repodata document shape (artifact subsets of both sections incl. missing packages.conda, "
                "metadata identity per artifact, five pre-existing signatures sections, extra top-level fields) x {library call, CLI}; "
                "each is signed on a real file; the result is abstracted (which metadata each entry verifies for, per an independent "
                "oracle) and judged by Trace_InPlace.tla (DomainExact, OwnMetadata, MatchesFn) and concretely for canonical form, "
                "untouched fields, RFC 8032 determinism, idempotence, client-side verification through a pkg_mgr delegation and "
                "non-verification against other artifacts' different metadata; plus random documents with up to 50 artifacts of arbitrary "
                "JSON metadata and the shipped samples; non-trivial = at least one artifact")
    run.tlc("InPlace", "InPlace_quick.cfg", timeout=900)
    for m, exp in MUTANTS.items():
        run.mutant("InPlace", f"InPlace_mut_{m}.cfg", expect=exp, timeout=600)
    r = run.tlc("InPlace", "InPlace_emit_quick.cfg" if quick else "InPlace_emit_thorough.cfg", expect_cases=True, timeout=1800)
    r.cases = [c for c in r.cases if c["proc"] in ("repodata", "cli_sign") and c["input"] == "ok"]
    events, problems = ie.run(run, r, fault_shapes_per_proc=0)
    for ev, n, conc in events:
        d = ev["doc"]
        if d and (d["pk"] or d["cd"]):
            run._distinct.add(json.dumps(d, sort_keys=True) + ev["proc"])
    for ev, n, conc in ie.judge(run, events):
        run.violation(sig(ev, "result is not the one the specification defines (signature-section domain / own-metadata binding)"),
                      {"kind": "inplace", "event": ev, **conc})
    bevents, bproblems = big_documents(run, 40 if quick else 600)
    for ev, n, conc in ie.judge(run, bevents, cfg="Trace_InPlace_big.cfg", names=BIG_NAMES):
        run.violation(sig(ev, "result is not the one the specification defines (large document)"), {"kind": "inplace", "event": ev, **conc})
    for p in problems + bproblems:
        if not p.get("gpg"):
            import re
            what = p["problem"].split(":")[0] if "client-side" in p["problem"] else p["problem"]
            run.violation("repodata signing: " + re.sub(r"\b[ac]\d+\b", "<artifact>", what),
                          {"kind": "inplace", "case": p["case"], "problem": p["problem"]})
    for name, why in shipped_samples(run):
        run.violation(f"shipped sample: {why.split(' for ')[0]}", {"kind": "sample", "file": name, "problem": why})
    run.exhaustive = True


def replay(payload):
    if "case" not in payload:
        print("sample-file findings are re-run by ./check C11")
        return 0
    case = payload["case"]
    with tempfile.TemporaryDirectory() as d:
        ev, tr, before, after, ctx = faults.run_case(case, d, payload["seed"])
        res, probs = ie.result_alpha(case, ctx, before, after, d, payload["seed"]) if ev["completed"] else ({}, ["did not complete: " + ev["outcome"]])
    print(json.dumps(res), probs)
    d = case["doc"]
    names = set((d["pk"] or []) + (d["cd"] or []))
    bad = bool(probs) or set(res.get("names", [])) != names or any(m != d["meta"][a] for a, m in zip(res.get("names", []), res.get("metas", [])))
    if bad:
        print("VIOLATION property=C11 replay=(this file)")
    return 1 if bad else 0
