"""C19 Key material round-trips losslessly and matches RFC 8032."""
from __future__ import annotations

import hashlib
import os
import random

from .. import crypto, lib

LEVEL = "model_checking"


def ref_values(seed):
    pub = crypto.ed25519_ref_public(seed)
    return {"priv_bytes": seed, "priv_hex": seed.hex(), "pub_bytes": pub, "pub_hex": pub.hex()}


def check(run):
    quick = run.tier == "quick"
    c, mc, signing = lib.cct("common"), lib.cct("metadata_construction"), lib.cct("signing")
    run.rule = ("Keys.tla: every path of conversions (14 conversion edges over 7 representations) up to depth 6 (thorough 8), FunctionOfSeed "
                "invariant (2 mutants killed); every path is walked concretely for seeded seeds + the RFC 8032 vectors: at every node the value "
                "equals the one RFC 8032 defines for the seed (pure-Python reference), signatures equal the reference's; key files round-trip; "
                "equivalence laws; malformed encodings rejected; distinct = (path, seed) pairs, non-trivial = paths with >= 2 conversions")
    for m in ("files_swap", "pub_is_priv"):
        run.mutant("Keys", f"Keys_mut_{m}.cfg", expect="FunctionOfSeed", timeout=300)
    r = run.tlc("Keys", "Keys.cfg" if quick else "Keys_thorough.cfg", expect_cases=True, timeout=900, workers=4)
    paths = {tuple(p) for p in r.cases}
    rr = random.Random(run.seed)
    seeds = [bytes.fromhex(v[0]) for v in crypto.RFC8032_VECTORS] + [crypto.seed_for(i, run.seed) for i in range(12 if quick else 50)]
    seeds += [b"\x00" * 32, b"\xff" * 32]
    wd = os.path.join(run.scratch, "keys")
    os.makedirs(wd, exist_ok=True)
    msgs = [b"", b"x", os.urandom(0) + b"msg \x00\xff" * 40]
    # key-file base names: the files are <name>.pri / <name>.pub whatever the name looks like; for every name with a dot a decoy pair
    # under the shorter stem exists already (holding another key)
    os.makedirs(os.path.join(wd, "sub.d"), exist_ok=True)
    NAMES = ["k%d" % os.getpid(), "root.2024", "my.key", "v1.2.3", "k.pri", "k.pub", "archive.tar.gz", ".hidden", "name with space", "sub.d/k", "sub.d/k.x",
             "ünï.ç", "trailing.", "UPPER.PRI"]
    decoy = crypto.seed_for(4242, run.seed)
    for nm in NAMES:
        stem = os.path.join(wd, nm)
        while "." in os.path.basename(stem).strip("."):
            stem = os.path.join(os.path.dirname(stem), os.path.basename(stem).rsplit(".", 1)[0])
            for ext, data in ((".pri", decoy), (".pub", crypto.ed25519_ref_public(decoy))):
                if not os.path.exists(stem + ext):
                    with open(stem + ext, "wb") as f:
                        f.write(data)
    name_i = [0]

    def viol(what, **kw):
        run.violation(what, {"kind": "keys", **kw})

    refsigs = {}
    for si, seed in enumerate(seeds):
        ref = ref_values(seed)
        refsigs[seed] = [crypto.ed25519_ref_sign(seed, m) for m in msgs[:2 if quick else 3]]
        pub_ref = {"pub_bytes": seed, "pub_hex": seed.hex()}        # the same 32 bytes read as a public key
        for path in sorted(paths, key=lambda p: rr.random()):
            public_start = path[0] == "start:public"
            cur_rep, cur = ("pub_bytes", seed) if public_start else ("priv_bytes", seed)
            ref_now = pub_ref if public_start else ref
            path = path[1:]
            ok = True
            for step, fn in enumerate(path):
                try:
                    if fn == "PrivateKey.from_bytes":
                        cur_rep, cur = "priv_obj", c.PrivateKey.from_bytes(cur)
                    elif fn == "PrivateKey.to_bytes":
                        cur_rep, cur = "priv_bytes", c.PrivateKey.to_bytes(cur)
                    elif fn == "PrivateKey.to_hex":
                        cur_rep, cur = "priv_hex", c.PrivateKey.to_hex(cur)
                    elif fn == "PrivateKey.from_hex":
                        cur_rep, cur = "priv_obj", c.PrivateKey.from_hex(cur)
                    elif fn == "public_key":
                        cur_rep, cur = "pub_obj", cur.public_key()
                    elif fn == "PublicKey.to_bytes":
                        cur_rep, cur = "pub_bytes", c.PublicKey.to_bytes(cur)
                    elif fn == "PublicKey.from_bytes":
                        cur_rep, cur = "pub_obj", c.PublicKey.from_bytes(cur)
                    elif fn == "PublicKey.to_hex":
                        cur_rep, cur = "pub_hex", c.PublicKey.to_hex(cur)
                    elif fn == "PublicKey.from_hex":
                        cur_rep, cur = "pub_obj", c.PublicKey.from_hex(cur)
                    elif fn == "write_key_files":
                        name_i[0] += 1
                        name = os.path.join(wd, NAMES[name_i[0] % len(NAMES)])
                        with open(name + ".pri", "wb") as f:
                            f.write(c.PrivateKey.to_bytes(cur))
                        with open(name + ".pub", "wb") as f:
                            f.write(c.PublicKey.to_bytes(cur.public_key()))
                        cur_rep, cur = "files", name
                    elif fn == "keyfiles_to_keys.private":
                        cur_rep, cur = "priv_obj", c.keyfiles_to_keys(cur)[0]
                    elif fn == "keyfiles_to_keys.public":
                        cur_rep, cur = "pub_obj", c.keyfiles_to_keys(cur)[1]
                    elif fn == "keyfiles_to_bytes.private":
                        cur_rep, cur = "priv_bytes", c.keyfiles_to_bytes(cur)[0]
                    elif fn == "keyfiles_to_bytes.public":
                        cur_rep, cur = "pub_bytes", c.keyfiles_to_bytes(cur)[1]
                    run.evaluations += 1
                except Exception as e:  # noqa: BLE001
                    if public_start and step == 0 and isinstance(e, ValueError):
                        ok = None          # these 32 bytes do not encode a curve point: not a public key at all
                        break
                    viol(f"conversion {fn} raised {type(e).__name__} on a valid key", path=list(path), step=step, seed=seed.hex())
                    ok = False
                    break
                # value at this node vs RFC 8032 for the seed
                if public_start and cur_rep == "pub_obj":
                    try:
                        good_pub = c.PublicKey.to_bytes(cur) == seed
                    except Exception:  # noqa: BLE001
                        good_pub = False
                    if not good_pub:
                        viol(f"public key object after {fn} does not hold the bytes it was built from", path=list(path), step=step, seed=seed.hex())
                        ok = False
                        break
                    continue
                if cur_rep in ref_now:
                    if cur != ref_now[cur_rep] or type(cur) is not type(ref_now[cur_rep]):
                        viol(f"value at {cur_rep} after {fn} is not the one RFC 8032 defines for the seed", path=list(path), step=step, seed=seed.hex(), got=repr(cur)[:200])
                        ok = False
                        break
                elif cur_rep == "priv_obj":
                    try:
                        good_priv = c.PrivateKey.to_bytes(cur) == seed and all(cur.sign(m) == s for m, s in zip(msgs, refsigs[seed]))
                    except Exception:  # noqa: BLE001 - not even a private key object
                        good_priv = False
                    if not good_priv:
                        viol(f"private key object after {fn} does not sign like RFC 8032 for the seed", path=list(path), step=step, seed=seed.hex())
                        ok = False
                        break
                elif cur_rep == "pub_obj":
                    try:
                        good = c.PublicKey.to_bytes(cur) == ref["pub_bytes"]
                        cur.verify(refsigs[seed][0], msgs[0])
                    except Exception:  # noqa: BLE001
                        good = False
                    if not good:
                        viol(f"public key object after {fn} is not the RFC 8032 public key of the seed", path=list(path), step=step, seed=seed.hex())
                        ok = False
                        break
            run._distinct.add((si, path) if len(path) >= 2 else None)
            if ok:
                run.traces_validated += 1
        # the library's own signing functions file under, and sign like, RFC 8032
        priv = c.PrivateKey.from_bytes(seed)
        env = signing.wrap_as_signable({"seed-index": si})
        signing.sign_signable(env, priv)
        from ..twins import twin_canon
        want = {ref["pub_hex"]: {"signature": crypto.ed25519_ref_sign(seed, twin_canon(env["signed"])).hex()}}
        if env["signatures"] != want:
            viol("sign_signable does not file the RFC 8032 signature under the RFC 8032 public key hex", seed=seed.hex(), got=env["signatures"])
        if signing.serialize_and_sign({"a": si}, priv) != crypto.ed25519_ref_sign(seed, twin_canon({"a": si})).hex():
            viol("serialize_and_sign differs from RFC 8032", seed=seed.hex())
        run.evaluations += 2
    run._distinct.discard(None)
    run.sample({"path": list(sorted(paths, key=len)[-1]), "seed": seeds[0].hex()})
    # equivalence laws
    objs = [(c.PrivateKey.from_bytes(s), c.PublicKey.from_bytes(crypto.ed25519_ref_public(s))) for s in seeds[:6]]
    for i, (pa, ua) in enumerate(objs):
        for j, (pb, ub) in enumerate(objs):
            for cls, a, b in ((c.PrivateKey, pa, pb), (c.PublicKey, ua, ub)):
                e1, e2 = cls.is_equivalent_to(a, b), cls.is_equivalent_to(b, a)
                run.evaluations += 2
                if e1 is not (i == j) or e1 is not e2:
                    viol(f"{cls.__name__}.is_equivalent_to is not an equivalence separating different keys (i={i}, j={j}: {e1}/{e2})")
        if c.PrivateKey.is_equivalent_to(pa, c.PrivateKey.from_hex(c.PrivateKey.to_hex(pa))) is not True:
            viol("a private key is not equivalent to its own hex round trip")
    # generated keys and key files
    for i in range(5 if quick else 40):
        name = os.path.join(wd, f"gen{i}" if i < 2 else f"gen{i}-" + os.path.basename(NAMES[i % len(NAMES)]))
        if i % 2:       # the name was used before, for key files in another (longer) format
            with open(name + ".pri", "wb") as f:
                f.write(os.urandom(32).hex().encode() + b"\n")
            with open(name + ".pub", "wb") as f:
                f.write(b"-----BEGIN PUBLIC KEY-----\n" + os.urandom(48))
        try:
            priv, pub = mc.gen_and_write_keys(name)
            c.keyfiles_to_keys(name)
        except Exception as e:  # noqa: BLE001
            viol(f"key files written by gen_and_write_keys over existing files do not load back ({type(e).__name__})")
            continue
        p2, u2 = c.keyfiles_to_keys(name)
        seed = c.PrivateKey.to_bytes(priv)
        run.evaluations += 2
        if not (c.PrivateKey.is_equivalent_to(priv, p2) and c.PublicKey.is_equivalent_to(pub, u2)):
            viol("keys written by gen_and_write_keys do not load back as equivalent keys")
        if c.PublicKey.to_bytes(pub) != crypto.ed25519_ref_public(seed) or c.keyfiles_to_bytes(name) != (seed, crypto.ed25519_ref_public(seed)):
            viol("generated public key / key files are not the RFC 8032 values for the generated seed")
        p3, u3 = mc.gen_keys()
        if c.PublicKey.to_bytes(u3) != crypto.ed25519_ref_public(c.PrivateKey.to_bytes(p3)):
            viol("gen_keys returns a public key that does not belong to the private key")
    # sequences around a FAILED key generation: the failure (second file cannot be created) is held on to, as an error list or a test
    # harness would, a later generation under the same name succeeds, the old failure is released - and the files still hold the keys the
    # successful call returned
    import gc
    for i in range(3 if quick else 12):
        name = os.path.join(wd, "afterfail%d" % i)
        held = []
        for blocker in ((".pub",), (".pri",), (".pub", ".pub"))[i % 3]:
            os.mkdir(name + blocker)                       # a directory where the key file should go: open() fails
            try:
                mc.gen_and_write_keys(name)
                viol("gen_and_write_keys succeeded although a key file could not be written")
            except Exception as e:  # noqa: BLE001
                held.append(e)                             # keep the exception (and whatever its traceback references) alive
            os.rmdir(name + blocker)
        try:
            priv, pub = mc.gen_and_write_keys(name)
        except Exception as e:  # noqa: BLE001
            viol(f"gen_and_write_keys fails after an earlier failed attempt under the same name ({type(e).__name__})")
            continue
        first = c.keyfiles_to_bytes(name)
        held.clear()       # (`except ... as e` already unbound e)
        gc.collect()
        second = c.keyfiles_to_bytes(name)
        run.evaluations += 4
        want = (c.PrivateKey.to_bytes(priv), c.PublicKey.to_bytes(pub))
        if first != want or second != want:
            viol("key files do not hold the keys the successful gen_and_write_keys returned, after an earlier failed attempt under the same name "
                 + ("(changed when the old failure was released)" if first == want else ""))
        run._distinct.add("afterfail%d" % i)
    # malformed encodings
    good = seeds[3]
    import array
    bad_bytes = [good[:31], good + b"\x00", b"", good.hex(), None, 5, [good], bytearray(good)[:31], memoryview(good), array.array("B", good), tuple(good), list(good),
                 int.from_bytes(good, "big"), good * 2]
    bad_hex = [good.hex().encode(), bytearray(good.hex().encode()), good.hex()[:63], good.hex() + "0", good.hex().upper(), " " + good.hex()[1:], good, None, 5, "0x" + good.hex()[2:], good.hex() + "\n", ""]
    for cls in (c.PrivateKey, c.PublicKey):
        for b in bad_bytes:
            try:
                cls.from_bytes(b)
                viol(f"{cls.__name__}.from_bytes accepts a malformed encoding ({type(b).__name__}, len {len(b) if hasattr(b, '__len__') else '-'})")
            except (TypeError, ValueError):
                pass
            except Exception as e:  # noqa: BLE001
                viol(f"{cls.__name__}.from_bytes raised {type(e).__name__} on a malformed encoding")
            run.evaluations += 1
        for h in bad_hex:
            try:
                cls.from_hex(h)
                viol(f"{cls.__name__}.from_hex accepts a malformed encoding ({h!r:.40})")
            except (TypeError, ValueError):
                pass
            except Exception as e:  # noqa: BLE001
                viol(f"{cls.__name__}.from_hex raised {type(e).__name__} on a malformed encoding")
            run.evaluations += 1
    # key FILES of the wrong length (or empty, or hex text instead of raw bytes) are not key files: nothing is loaded from them
    for i, (pri, pub) in enumerate([(good + b"\x00", None), (good * 2, None), (good[:31], None), (b"", None), (good.hex().encode(), None), (good + b"\n", None),
                                    (None, crypto.ed25519_ref_public(good) + b"\x00"), (None, crypto.ed25519_ref_public(good)[:31]), (None, b""),
                                    (None, crypto.ed25519_ref_public(good).hex().encode())]):
        name = os.path.join(wd, "badfile%d" % i)
        with open(name + ".pri", "wb") as f:
            f.write(good if pri is None else pri)
        with open(name + ".pub", "wb") as f:
            f.write(crypto.ed25519_ref_public(good) if pub is None else pub)
        for fn_name, fn in (("keyfiles_to_keys", c.keyfiles_to_keys),):
            try:
                fn(name)
                viol(f"{fn_name} loads keys from a {'private' if pri is not None else 'public'} key file of the wrong length ({len(pri if pri is not None else pub)} bytes)")
            except (TypeError, ValueError):
                pass
            except Exception as e:  # noqa: BLE001
                viol(f"{fn_name} raised {type(e).__name__} on a key file of the wrong length")
            run.evaluations += 1
    run.exhaustive = True
    run.assumptions.append("RFC 8032 equality is a differential check against a pure-Python reference validated on the RFC's test vectors; 'all 32-byte seeds' is sampled (seeded) plus edge seeds")


def replay(payload):
    print(payload)
    print("re-run ./check C19")
    return 0
