"""C06 Declared metadata type is bound to the role by signed content alone."""
from __future__ import annotations

from .. import delegation_engine as de
from .. import lib, metadata, root_engine, traces_delegation
from .. import verify_engine as ve
from ..tlc import MachineryFailure

LEVEL = "model_checking"
MUTANTS = {"whole_envelope": "TypeBound", "notypecheck": "TypeBound"}


def owns(o):
    c, obs = o["case"], o["observed"]
    if c.get("mismatch") and obs == "accept":
        return True                      # type differs from role, signed part is well-formed delegating metadata, accepted
    if o.get("variant") == "stripped" and obs != "accept":
        return True                      # accept(env) but not accept(Strip(env))
    return False


def check(run):
    quick = run.tier == "quick"
    if metadata.NWF != 47 or de.NENVWF != 6:
        raise MachineryFailure("malformation tables changed: update NWF / NEnvWF in spec/mc/Delegation_*.cfg")
    run.rule = ("Delegation.tla / Verify.tla / Root.tla enumerations: every validly signed delegating document of type t presented "
                "for every role r with every manipulation of the unsigned part (junk name, junk value, malformed entry under an "
                "authorized key, extra entries, alternative spellings); every accepted case of the three verifiers re-run on "
                "Strip(envelope); non-trivial = non-empty signature map")
    run.tlc("Delegation", "Delegation_quick.cfg", timeout=900)
    for m, exp in MUTANTS.items():
        run.mutant("Delegation", f"Delegation_mut_{m}.cfg", expect=exp, timeout=600)
    r = run.tlc("Delegation", "Delegation_emit_quick.cfg" if quick else "Delegation_emit_thorough.cfg", raw_cases=True,
                expect_cases=True, timeout=3000)
    bad = de.replay(run, r, opts={"strip": True})
    for o in bad:
        if owns(o):
            run.violation(de.coarse_sig(o), {"kind": "verify_delegation", **o})
        else:
            run.note_drift("outside Allowed but owned by another property: " + de.coarse_sig(o))
    # stripping monotonicity for the other two verifiers
    r2 = run.tlc("Verify", "Verify_emit_quick.cfg" if quick else "Verify_emit_thorough.cfg", raw_cases=True, expect_cases=True, timeout=3000)
    for o in ve.replay(run, r2, opts={"strip": True}):
        if o["variant"] == "stripped" and o["observed"] != "accept":
            run.violation(ve.coarse_sig(o), {"kind": "verify_signable", **o})
        else:
            run.note_drift("outside Allowed but owned by another property: " + ve.coarse_sig(o))
    r3 = run.tlc("Root", "Root_emit_quick.cfg" if quick else "Root_emit_thorough.cfg", raw_cases=True, expect_cases=True, timeout=3000)
    for o in root_engine.replay(run, r3, opts={"strip": True}):
        if o["variant"] == "stripped" and o["observed"] != "accept":
            run.violation(root_engine.coarse_sig(o), {"kind": "verify_root", **o})
        else:
            run.note_drift("outside Allowed but owned by another property: " + root_engine.coarse_sig(o))
    run.exhaustive = True
    traces_delegation.fixture_traces(run, owns)
    traces_delegation.random_traces(run, 300 if quick else 6000, owns)
    traces_delegation.aliased_traces(run, 200 if quick else 3000, owns)


def replay(payload):
    c = payload["concrete"]
    auth = lib.cct("authentication")
    if payload.get("kind") == "verify_signable":
        out, exc, _ = lib.call(auth.verify_signable, c["envelope"], c["authorized"], c["threshold"], gpg=c["gpg"])
    elif payload.get("kind") == "verify_root":
        out, exc, _ = lib.call(auth.verify_root, c["trusted"], c["offered"])
    else:
        out, exc, _ = lib.call(auth.verify_delegation, c["role"], c["untrusted"], c["trusted"], gpg=c["gpg"])
    print(f"observed={out} exc={exc} allowed={payload['allowed']}")
    bad = lib.family(out) not in payload["allowed"]
    if bad:
        print("VIOLATION property=C06 replay=(this file)")
    return 1 if bad else 0
