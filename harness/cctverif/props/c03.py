"""C03 Root update accepted iff version+1 and signed per old and new root rules."""
from __future__ import annotations

from .. import lib, metadata, root_engine as re_
from ..tlc import MachineryFailure
from .. import traces_root

LEVEL = "model_checking"
MUTANTS = {"gt": None, "ge": None, "thr_from_new": "TrustedRuleDecides", "keys_from_new": "TrustedRuleDecides",
           "rawmode": None, "noself": "IffSound"}


def owns(o):
    """C03 owns both halves of the iff: acceptance outside RootIff, and non-acceptance when RootIff holds."""
    return (o["observed"] == "accept" and "accept" not in o["allowed"]) or \
           (o["allowed"] == ["accept"] and o["observed"] != "accept")


def check(run):
    quick = run.tier == "quick"
    if metadata.NWF != 47:
        raise MachineryFailure("metadata.NWF changed: update NWF in spec/mc/Root_*.cfg")
    run.rule = ("TLC enumerates all (trusted root, offered root) pairs of Root.tla: versions, root key sets, thresholds, per-key "
                "signature states (valid OpenPGP, raw decoy, other content, corrupted, mis-filed), junk entry, declared types, "
                "missing root rule, 47 malformation classes on either side; each pair is built as real JSON with real "
                "OpenPGP-framed signatures and run through verify_root; non-trivial = at least one signature entry present")
    run.tlc("Root", "Root_quick.cfg", timeout=900)
    for m, exp in (list(MUTANTS.items())[:4] if quick else MUTANTS.items()):
        run.mutant("Root", f"Root_mut_{m}.cfg", expect=exp, timeout=600)
    r = run.tlc("Root", "Root_emit_quick.cfg" if quick else "Root_emit_thorough.cfg", raw_cases=True,
                expect_cases=True, timeout=3000)
    bad = re_.replay(run, r, opts={"strip": False})
    run.exhaustive = True
    for o in bad:
        if owns(o):
            run.violation(re_.coarse_sig(o), {"kind": "verify_root", **o})
        else:
            run.note_drift("outside Allowed but owned by another property: " + re_.coarse_sig(o))
    traces_root.fixture_chain(run, owns)
    traces_root.random_pairs(run, 400 if quick else 8000, owns)
    traces_root.big_pairs(run, 8 if quick else 100, owns)
    traces_root.float_version_pairs(run, 120 if quick else 2000, owns)


def replay(payload):
    c = payload["concrete"]
    out, exc, _ = lib.call(lib.cct("authentication").verify_root, c["trusted"], c["offered"])
    print(f"observed={out} exc={exc} allowed={payload['allowed']}")
    bad = owns({"observed": out, "allowed": payload["allowed"]})
    if bad:
        print("VIOLATION property=C03 replay=(this file)")
    return 1 if bad else 0
