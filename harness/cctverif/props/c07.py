"""C07 Canonical serialization: deterministic, order-independent, injective, frozen."""
from __future__ import annotations

import hashlib
import itertools
import json
import math
import os
import random
import struct

from .. import lib, procs
from ..tlc import MachineryFailure
from ..twins import twin_canon

LEVEL = "model_checking"


def pyvalue(v):
    t = v["t"]
    if t == "null":
        return None
    if t == "true":
        return True
    if t == "false":
        return False
    if t == "int":
        return int(bytes(v["a"]).decode())
    if t == "float":
        return float(bytes(v["a"]).decode())
    if t == "str":
        return "".join(chr(c) for c in v["c"])
    if t == "arr":
        return [pyvalue(m["v"]) for m in v["m"]]
    return {"".join(chr(c) for c in m["k"]): pyvalue(m["v"]) for m in v["m"]}


def norm(x):
    """Hashable normal form of a JSON value (objects as sorted tuples; floats by bit pattern; NaN unified)."""
    if isinstance(x, dict):
        return ("o", tuple(sorted((k, norm(v)) for k, v in x.items())))
    if isinstance(x, list):
        return ("a", tuple(norm(v) for v in x))
    if isinstance(x, float):
        return ("f", "nan" if x != x else struct.pack(">d", x).hex())
    if isinstance(x, bool):
        return ("b", x)
    if isinstance(x, int):
        return ("i", x)
    return ("s", x) if isinstance(x, str) else ("n",)


def permutations_of(v):
    """Python values built from every insertion order of the top-level members (and of nested objects' members, reversed)."""
    if v["t"] != "obj" or len(v["m"]) < 2:
        return []
    out = []
    for p in itertools.permutations(v["m"]):
        out.append({"".join(chr(c) for c in m["k"]): pyvalue(m["v"]) for m in p})
    return out


def task_canon_cases(job):
    """subworker task: serialize values in a fresh interpreter configuration."""
    from .. import lib as _l
    cs = _l.cct("common").canonserialize
    return [cs(pyvalue(v)).hex() for v in job["values"]]


def random_json(r, depth=0, maxdepth=6):
    x = r.random()
    if depth >= maxdepth or x < 0.45:
        k = r.randrange(9)
        if k == 0:
            return None
        if k == 1:
            return r.random() < .5
        if k == 2:
            return r.randint(-10 ** 6, 10 ** 6)
        if k == 3:
            return r.choice([1, -1]) * r.getrandbits(r.choice([8, 64, 200, 4000, 13000]))
        if k == 4:
            return struct.unpack(">d", struct.pack(">Q", r.getrandbits(64)))[0]
        if k == 5:
            return r.choice([0.0, -0.0, 5e-324, 2.2250738585072014e-308, 1.7976931348623157e308, float("inf"), float("-inf"),
                             float("nan"), 1e16, 9999999999999998.0, 1e-5, 0.0001, 123456789012345680.0, 0.1, 1 / 3, 1e22, 1e21, 1e23])
        return random_string(r)
    if x < 0.7:
        return [random_json(r, depth + 1, maxdepth) for _ in range(r.randint(0, 4))]
    return {random_string(r): random_json(r, depth + 1, maxdepth) for _ in range(r.randint(0, 4))}


def random_string(r):
    n = r.choice([0, 1, 1, 2, 3, 8, 40])
    out = []
    for _ in range(n):
        k = r.randrange(8)
        if k == 0:
            cp = r.randrange(0, 0x20)
        elif k == 1:
            cp = r.randrange(0x20, 0x7F)
        elif k == 2:
            cp = r.choice([0x22, 0x5C, 0x2F, 0x7F, 0x80, 0xA0, 0x2028, 0x2029, 0xFFFE, 0xFFFF, 0xFEFF])
        elif k == 3:
            cp = r.randrange(0x80, 0xD800)
        elif k == 4:
            cp = r.randrange(0xD800, 0xE000)
        elif k == 5:
            cp = r.randrange(0xE000, 0x10000)
        else:
            cp = r.randrange(0x10000, 0x110000)
        if out and 0xD800 <= out[-1] <= 0xDBFF and 0xDC00 <= cp <= 0xDFFF:
            continue      # no parser returns a high surrogate directly followed by a low one
        out.append(cp)
    return "".join(map(chr, out))


def nested(kind, depth):
    v = 7
    for i in range(depth):
        v = [v] if kind == "list" or (kind == "mixed" and i % 2) else {"k": v}
    return v


def nested_bytes(kind, depth):
    """Canonical bytes of nested(kind, depth), built without recursion."""
    opens, closes = [], []
    pending = ""                      # text that precedes the next opening bracket on its line
    for lvl in range(depth):
        i = depth - 1 - lvl           # nested() wraps inside-out: outermost container has the largest i
        is_list = kind == "list" or (kind == "mixed" and i % 2)
        opens.append("  " * lvl + pending + ("[" if is_list else "{"))
        closes.append("  " * lvl + ("]" if is_list else "}"))
        pending = "" if is_list else '"k": '
    body = "  " * depth + pending + "7"
    return "\n".join(opens + [body] + closes[::-1]).encode("ascii")


def at_depth(n, fn):
    return fn() if n <= 0 else at_depth(n - 1, fn)


def check(run):
    quick = run.tier == "quick"
    common = lib.cct("common")
    cs = common.canonserialize
    run.rule = ("Canon.tla enumerates the bounded JSON domain (atoms incl. big integers and float tokens, all parser-returnable strings of "
                "<= 2 (thorough: 3) code points over a 14-code-point alphabet incl. lone surrogates/astral/controls, arrays and objects with "
                "every insertion order, nested containers) and prints (value, bytes); canonserialize must return exactly those bytes for "
                "every insertion order, in every interpreter configuration; parse(bytes) gives the value back and re-serializes to the same "
                "bytes; distinct values have distinct bytes; write_metadata_to_file writes those bytes.  Beyond the bounded domain: seeded "
                "random JSON (all of Unicode, random-bit floats, integers up to 13000 bits, depth <= 40) against the cross-checked twin "
                "(this part is exploration).  non-trivial = containers or strings needing escapes")
    for m, exp in {"nosort": "OrderIndependent", "astral_single": None}.items():
        run.mutant("Canon", f"Canon_mut_{m}.cfg", expect=exp, timeout=600)
    r = run.tlc("Canon", "Canon_quick.cfg" if quick else "Canon_thorough.cfg", expect_cases=True, timeout=3000)
    buckets = {}
    path = os.path.join(run.scratch, "c07.json")
    nperm = 0
    for case in r.cases:
        v, want = case["v"], bytes(case["bytes"])
        pv = pyvalue(v)
        if twin_canon(pv) != want:
            raise MachineryFailure(f"twin_canon disagrees with Canon.tla on {v}: {twin_canon(pv)!r} vs {want!r}")
        got = cs(pv)
        run.evaluations += 1
        nontrivial = v["t"] in ("arr", "obj") or (v["t"] == "str" and any(c < 32 or c > 126 or c in (34, 92) for c in v["c"]))
        if nontrivial:
            run._distinct.add(hashlib.sha256(want).hexdigest()[:16])
        kind = v["t"]
        if got != want:
            run.violation(f"canonserialize bytes differ from the published format for a value of kind {kind}",
                          {"kind": "canon", "value": v, "expected_hex": want.hex(), "got_hex": got.hex()})
            continue
        for pvp in permutations_of(v):
            nperm += 1
            run.evaluations += 1
            if cs(pvp) != want:
                run.violation("canonserialize depends on key insertion order", {"kind": "canon", "value": v, "expected_hex": want.hex()})
                break
        try:
            back = json.loads(want)
        except Exception as e:  # noqa: BLE001
            run.violation(f"canonical bytes do not parse as JSON ({kind})", {"kind": "canon", "value": v, "expected_hex": want.hex(), "error": str(e)})
            continue
        if norm(back) != norm(pv):
            run.violation(f"parsing the canonical bytes does not give the value back ({kind})", {"kind": "canon", "value": v, "expected_hex": want.hex()})
        elif cs(back) != want:
            run.violation("canonical bytes are not a fixpoint of parse-then-serialize", {"kind": "canon", "value": v, "expected_hex": want.hex()})
        buckets.setdefault(got, set()).add(norm(pv))
        if run.evaluations % 97 == 0:
            common.write_metadata_to_file(pv, path)
            with open(path, "rb") as f:
                if f.read() != want:
                    run.violation("write_metadata_to_file does not write the canonical bytes", {"kind": "canon", "value": v, "expected_hex": want.hex()})
        run.traces_validated += 1
        run.sample({"value": v, "bytes": want.decode("ascii")}, cap=3)
    for b, vals in buckets.items():
        if len(vals) > 1:
            run.violation("two different JSON values share canonical bytes", {"kind": "canon", "bytes_hex": b.hex(), "values": [repr(x) for x in vals]})
    run.exhaustive = True
    run.extra["insertion_orders_checked"] = nperm
    # interpreter configurations
    rr = random.Random(run.seed)
    sample = rr.sample(r.cases, min(len(r.cases), 600 if quick else 5000))
    cwd_alt = os.path.join(run.scratch, "some dir é")
    os.makedirs(cwd_alt, exist_ok=True)
    for i, cfg in enumerate(procs.CONFIGS):
        res = procs.run_job(run, {"task": "canon_cases", "values": [c["v"] for c in sample], "task_modules": ["cctverif.props.c07"]}, cfg,
                            cwd=cwd_alt if i % 2 else None)
        run.evaluations += len(res)
        for c, got in zip(sample, res):
            if bytes.fromhex(got) != bytes(c["bytes"]):
                run.violation(f"canonserialize output depends on the interpreter configuration ({cfg[0]})",
                              {"kind": "canon", "value": c["v"], "config": cfg[0], "got_hex": got})
                break
    run.extra["configurations"] = [c[0] for c in procs.CONFIGS]
    # beyond the bounded domain (exploration): random JSON against the cross-checked twin
    n = 4000 if quick else 60000
    seen = {}
    for i in range(n):
        val = random_json(rr, maxdepth=rr.choice([2, 4, 6, 40]) if i % 50 == 0 else 5)
        want = twin_canon(val)
        got = cs(val)
        run.evaluations += 1
        if got != want:
            run.violation("canonserialize differs from the published format on a random JSON value", {"kind": "canon-random", "value_repr": repr(val)[:2000],
                                                                                                      "expected_hex": want[:4000].hex(), "got_hex": got[:4000].hex()})
            break
        back = json.loads(got)
        if norm(back) != norm(val) or cs(back) != got:
            run.violation("round trip / fixpoint fails on a random JSON value", {"kind": "canon-random", "value_repr": repr(val)[:2000]})
            break
        h = hashlib.sha256(got).digest()
        if h in seen and seen[h] != norm(val):
            run.violation("two different random JSON values share canonical bytes", {"kind": "canon-random", "value_repr": repr(val)[:2000]})
            break
        seen[h] = norm(val)
    # large documents: many members, every insertion-order pattern at the top level, unsorted nested objects
    nlarge = 0
    for size in ([2, 10, 99, 100, 101, 150, 1000] if quick else [2, 10, 50, 99, 100, 101, 102, 128, 150, 256, 1000, 5000]):
        for order in ("ascending", "descending", "random"):
            for container in ("dict", "list"):
                ks = ["k%06d" % i for i in range(size)]
                if order == "descending":
                    ks.reverse()
                elif order == "random":
                    rr.shuffle(ks)
                inner = lambda i: {"z": i, "a": [{"y": 1, "b": {"d": None, "c": i}}], "m": "x"}      # noqa: E731  (unsorted insertion order inside)
                val = {k: inner(i) for i, k in enumerate(ks)} if container == "dict" else [inner(i) for i in range(size)]
                want, got = twin_canon(val), cs(val)
                run.evaluations += 1
                nlarge += 1
                if got != want:
                    run.violation(f"canonserialize differs from the published format on a large {container} ({order} insertion order)",
                                  {"kind": "canon-random", "value_repr": f"{container} of {size} members, {order} insertion order, nested objects inserted unsorted"})
                elif cs(json.loads(got)) != got:
                    run.violation("large document is not a fixpoint of parse-then-serialize", {"kind": "canon-random", "value_repr": f"{container} {size} {order}"})
    run.extra["large_documents"] = nlarge
    # deep documents and deep call stacks: whenever bytes are returned they are THE bytes of the value (running out of stack may
    # fail the call - RecursionError - but must never change the result)
    for d in (1, 2, 7):
        for kind in ("list", "dict", "mixed"):
            if twin_canon(nested(kind, d)) != nested_bytes(kind, d):
                raise MachineryFailure("closed form for nested documents disagrees with twin_canon")
    ndeep, nfail = 0, 0
    for kind in ("list", "dict", "mixed"):
        for depth in ([50, 300, 900, 990, 1000, 1100, 1500] if quick else [50, 100, 300, 500, 700, 900, 980, 990, 995, 1000, 1010, 1100, 1500, 3000, 5000]):
            val, want = nested(kind, depth), nested_bytes(kind, depth)
            for frames in ((0, 500, 800, 950) if quick else (0, 100, 300, 500, 700, 800, 900, 950, 970, 985)):
                try:
                    got = at_depth(frames, lambda: cs(val))
                except RecursionError:
                    nfail += 1
                    got = None
                run.evaluations += 1
                ndeep += 1
                run._distinct.add(f"deep-{kind}-{depth}-{frames}")
                if got is not None and got != want:
                    run.violation("canonserialize returns other bytes for a deeply nested value / from a deep call stack",
                                  {"kind": "canon-random", "value_repr": f"{kind} nested {depth} deep, serialised {frames} frames below the caller",
                                   "got_head": got[:80].decode("ascii", "replace")})
    run.extra["deep_documents"] = {"calls": ndeep, "ended_in_RecursionError": nfail}
    # what is VERIFIED is the bytes of the value that was given: documents whose numbers have two JSON spellings of one magnitude (2 / 2.0,
    # 1000 / 1e3) are signed by an independent signer over the twin's bytes and handed to the verifiers; validators may refuse such a
    # document as malformed, but if signatures are looked at they are looked at over those bytes, and the value still serialises to them
    from .. import crypto, gamma, metadata
    auth = lib.cct("authentication")
    keys = gamma.Keys(2, run.seed, offset=9700)
    nver = 0
    for v_old, v_new in ((1, 2.0), (999, 1e3), (1, 2), (2 ** 53 - 1, float(2 ** 53)), (4, 5.0)):
        for role_doc in ("root", "key_mgr"):
            tdoc = metadata.delegating_doc("root", v_old, {"root": metadata.rule([keys.pub[1]], 1), "key_mgr": metadata.rule([keys.pub[2]], 1)}, rr)
            if role_doc == "root":
                ndoc = metadata.delegating_doc("root", v_new, {"root": metadata.rule([keys.pub[1]], 1), "key_mgr": metadata.rule([keys.pub[2]], 1)}, rr)
            else:
                ndoc = metadata.delegating_doc("key_mgr", v_new, {"pkg_mgr": metadata.rule([keys.pub[1]], 1)}, rr)
            want = twin_canon(ndoc)
            hdr = gamma.HEADERS[0]
            if role_doc == "root":
                env = {"signatures": {keys.pub[1]: {"other_headers": hdr.hex(), "signature": keys.sign(1, crypto.gpg_digest(want, hdr)).hex()}}, "signed": ndoc}
                out, exc, _ = lib.call(auth.verify_root, {"signatures": {}, "signed": tdoc}, env)
            else:
                env = {"signatures": {keys.pub[2]: {"signature": keys.sign(2, want).hex()}}, "signed": ndoc}
                out, exc, _ = lib.call(auth.verify_delegation, "key_mgr", env, {"signatures": {}, "signed": tdoc})
            run.evaluations += 1
            nver += 1
            run._distinct.add(f"verified-bytes-{v_new!r}-{role_doc}")
            if lib.family(out) not in ("accept", "TypeError", "ValueError"):
                run.violation(f"a {role_doc} document signed over its canonical bytes is refused with {out}: other bytes than the value's were verified",
                              {"kind": "canon-random", "value_repr": f"version {v_new!r} after {v_old!r}", "exc": exc})
            if cs(env["signed"]) != want:
                run.violation("verification changed the canonical bytes of the value it was given", {"kind": "canon-random", "value_repr": f"version {v_new!r}"})
    # ... and for EVERY kind of payload (arrays, scalars, empty / falsy values, objects) the library's signer signs, and its verifier
    # verifies, exactly the canonical bytes of that payload: a sample of the bounded domain as payloads, signature by an independent signer
    # over Canon.tla's bytes must be accepted, the library's own signature must be the RFC 8032 one over those bytes, and a signature over the
    # bytes of ANOTHER value of the sample must be rejected
    signing, common2 = lib.cct("signing"), lib.cct("common")
    psample = [c for c in r.cases[:: max(1, len(r.cases) // (300 if quick else 3000))]]
    # every atom and every empty container of the domain is in the sample (the falsy ones are where `x or default` slips hide)
    psample += [c for c in r.cases if c["v"]["t"] in ("null", "true", "false", "int", "float") or (c["v"]["t"] == "str" and len(c["v"]["c"]) <= 1)
                or (c["v"]["t"] in ("arr", "obj") and len(c["v"]["m"]) == 0)]
    priv = common2.PrivateKey.from_bytes(keys.seeds[1])
    nsv = 0
    for i, c in enumerate(psample):
        v, want = pyvalue(c["v"]), bytes(c["bytes"])
        other = bytes(psample[(i + 1) % len(psample)]["bytes"])
        sig_lib = signing.serialize_and_sign(pyvalue(c["v"]), priv)
        if sig_lib != crypto.fast_sign(keys.seeds[1], want).hex():
            run.violation("serialize_and_sign does not sign the canonical bytes of the payload", {"kind": "canon", "value": c["v"], "expected_hex": want.hex()})
        for data, expect in ((want, "accept"), (other, "SignatureError" if other != want else "accept")):
            env = {"signatures": {keys.pub[1]: {"signature": keys.sign(1, data).hex()}}, "signed": pyvalue(c["v"])}
            out, exc, _ = lib.call(auth.verify_signable, env, [keys.pub[1]], 1, gpg=False)
            run.evaluations += 1
            nsv += 1
            if out != expect:
                run.violation(f"verify_signable {'rejects' if expect == 'accept' else 'accepts'} a signature over {'the' if expect == 'accept' else 'other than the'} canonical bytes of a payload of kind {c['v']['t']}",
                              {"kind": "canon", "value": c["v"], "expected_hex": want.hex(), "outcome": out, "exc": exc})
    run.extra["verified_bytes_cases"] = nver + nsv
    # the bytes are a function of the value alone - also of nothing that happened EARLIER in the process: a sample of the bounded domain is
    # serialised, then the library is put through its other activities (interactive modify-metadata sessions with their display code, command
    # line sub-commands, builders, signing and verification, failing calls), then the same sample is serialised again
    from .. import modify_engine
    hist_sample = [c for c in r.cases[:: max(1, len(r.cases) // 400)]]
    before_hist = [cs(pyvalue(c["v"])) for c in hist_sample]
    rm = run.tlc("Modify", "Modify_quick.cfg", expect_cases=True, timeout=1800, workers=8)
    wdm = os.path.join(run.scratch, "c07-modify")
    os.makedirs(wdm, exist_ok=True)
    for idx, case in enumerate(rm.cases[:: max(1, len(rm.cases) // 12)][:12]):
        modify_engine.replay_script(case, run.seed, idx, wdm)
    cli = lib.cct("cli")
    mc = lib.cct("metadata_construction")
    for argv in (["verify-metadata", os.path.join(wdm, "nope-1.json"), os.path.join(wdm, "nope-2.json")], ["sign-artifacts", os.path.join(wdm, "nope.json"), os.path.join(wdm, "nope.pri")],
                 ["gpg-key-lookup", "f0" * 20]):
        try:
            lib.call(cli.cli, argv)
        except BaseException:  # noqa: BLE001 - argparse exits
            pass
    lib.call(mc.build_root_metadata, 1, [keys.pub[1]], 1, [keys.pub[2]], 1)
    lib.call(cs, {1, 2})
    lib.call(cs, nested("list", 5000))
    after_hist = [cs(pyvalue(c["v"])) for c in hist_sample]
    run.evaluations += 2 * len(hist_sample)
    ndiff = sum(1 for a, b in zip(before_hist, after_hist) if a != b)
    if ndiff or any(b != bytes(c["bytes"]) for b, c in zip(after_hist, hist_sample)):
        run.violation("canonserialize returns other bytes for the same values after other library activity in the same process (interactive sessions, "
                      "command line, failed calls)", {"kind": "canon-random", "value_repr": f"{ndiff} of {len(hist_sample)} sampled values changed"})
    run._distinct.add("process-history")
    run.extra["random_values_beyond_bounded_domain"] = n
    run.assumptions.append("beyond the bounded domain of Canon.tla (all floats, arbitrary-size integers, all of Unicode) the claim is seeded random sampling against twin_canon, itself cross-checked against Canon.tla on the whole bounded domain in this run")


procs_task = task_canon_cases


def replay(payload):
    cs = lib.cct("common").canonserialize
    if "value" not in payload:
        print("random-value findings are regenerated from the seed")
        return 0
    pv = pyvalue(payload["value"])
    got = cs(pv)
    print(got, payload.get("expected_hex"))
    bad = got.hex() != payload.get("expected_hex")
    if bad:
        print("VIOLATION property=C07 replay=(this file)")
    return 1 if bad else 0
