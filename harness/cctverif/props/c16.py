"""C16 Metadata constructors emit only well-formed, faithful metadata."""
from __future__ import annotations

import copy
import datetime
import hashlib
import json
import random

from .. import crypto, gamma, lib, schema_gamma as sg, traces_root, twins
from ..tlc import MachineryFailure
from ..twins import twin_canon

LEVEL = "model_checking"
FMT = "%Y-%m-%dT%H:%M:%SZ"


def arg_for(field, cls, r):
    if field == "type":
        return {"root": "root", "key_mgr": "key_mgr", "unsupported": r.choice(["pkg_mgr", "channeler", ""]), "nonstr": r.choice([None, 5, ["root"], b"root"])}[cls]
    if field == "deleg":
        return not_none(lambda: sg.delegations(cls, r)) if cls != "null" else []
    if field == "ver":
        return sg.number(cls, r)
    return not_none(lambda: sg.date(cls, r))


def not_none(f):
    """None means 'argument not given' for the builders: never use it as a corrupted value"""
    for _ in range(50):
        v = f()
        if v is not None:
            return v
    return 0


def keys_for(cls, r):
    return {"ok": [sg.KA, sg.KB], "empty": [], "key_upper": [sg.KA.upper()], "key_dup": [sg.KA, sg.KA], "key_nonstr": [5], "keys_not_list": sg.KA,
            "key_short": [sg.KA[:-2]]}[cls]


def thr_for(cls, r):
    return {"ok": 1, "thr_gt_keys": 5, "thr_zero": 0, "thr_neg": -1, "thr_frac": 1.5, "thr_str": "1", "thr_inf": float("inf"), "thr_nan": float("nan"),
            "thr_bool": True, "thr_intfloat": 1.0, "thr_null": None, "thr_huge": 2 ** 70}[cls]


def same(a, b):
    """verbatim: equal as Python values (NaN-aware through canonical bytes), same types"""
    try:
        return twin_canon(a) == twin_canon(b) and type(a) is type(b)
    except TypeError:
        return a == b


def task_builder_defaults(job):
    """subworker task: default dates of the builders and the clock helper, observed in a fresh interpreter configuration."""
    mc, common = lib.cct("metadata_construction"), lib.cct("common")
    now = lambda: datetime.datetime.utcnow().replace(microsecond=0).strftime(FMT)      # noqa: E731
    out = []
    for i in range(job["n"]):
        for fn in ("deleg:root", "deleg:key_mgr", "root"):
            t0 = now()
            try:
                md = (mc.build_delegating_metadata(fn.split(":")[1]) if fn.startswith("deleg") else
                      mc.build_root_metadata(1 + i, [sg.KA], 1, [sg.KB], 1))
                rec = {"fn": fn, "ts": md.get("timestamp"), "exp": md.get("expiration")}
            except Exception as e:  # noqa: BLE001
                rec = {"fn": fn, "error": f"{type(e).__name__}: {e}"}
            rec.update(t0=t0, t1=now())
            out.append(rec)
        for days, secs in [(0, 0), (365, 0), (31, 0), (-1, 0), (0, 86399), (3650, 0)]:
            t0 = now()
            try:
                rec = {"fn": "helper", "days": days, "secs": secs, "got": common.iso8601_time_plus_delta(datetime.timedelta(days=days, seconds=secs))}
            except Exception as e:  # noqa: BLE001
                rec = {"fn": "helper", "days": days, "secs": secs, "error": f"{type(e).__name__}: {e}"}
            rec.update(t0=t0, t1=now())
            out.append(rec)
    return out


from ..fakeclock import FakeClock      # noqa: E402


def task_builder_clock(job):
    """subworker task: default dates of the builders at frozen instants (the clock cases of Builders.tla)."""
    mc, common = lib.cct("metadata_construction"), lib.cct("common")
    clock = FakeClock()
    out = []
    try:
        for c in job["cases"]:
            clock.set(c["y"], c["m"], c["d"], c["s"])
            for fn in ("deleg:root", "deleg:key_mgr", "root", "helper0", "helper365"):
                try:
                    if fn.startswith("deleg"):
                        md = mc.build_delegating_metadata(fn.split(":")[1])
                        rec = {"ts": md.get("timestamp"), "exp": md.get("expiration")}
                    elif fn == "root":
                        md = mc.build_root_metadata(3, [sg.KA], 1, [sg.KB], 1)
                        rec = {"ts": md.get("timestamp"), "exp": md.get("expiration")}
                    else:
                        rec = {"got": common.iso8601_time_plus_delta(datetime.timedelta(days=int(fn[6:])))}
                except Exception as e:  # noqa: BLE001
                    rec = {"error": f"{type(e).__name__}: {e}"}
                out.append(dict(rec, fn=fn, case=c))
    finally:
        clock.close()
    return out


def judge_clock(run, recs, config):
    import calendar
    for rec in recs:
        c = rec["case"]
        now = calendar.timegm((c["y"], c["m"], c["d"], 0, 0, 0)) + c["s"]
        E = lambda s: calendar.timegm(datetime.datetime.strptime(s, FMT).timetuple())      # noqa: E731
        run.evaluations += 1
        what = None
        try:
            if "error" in rec:
                what = "raises " + rec["error"].split(":")[0]
            elif rec["fn"].startswith("helper"):
                if twins.twin_date(rec["got"]) != twins.ACCEPT or E(rec["got"]) != now + 86400 * int(rec["fn"][6:]):
                    what = "iso8601_time_plus_delta is not the clock's UTC time plus the given delta"
            else:
                if twins.twin_date(rec["ts"]) != twins.ACCEPT or twins.twin_date(rec["exp"]) != twins.ACCEPT:
                    what = "default dates are not canonical UTC timestamps"
                elif E(rec["ts"]) != now:
                    what = "default timestamp is not the clock's UTC time"
                elif not (86400 * c["min_days"] <= E(rec["exp"]) - E(rec["ts"]) <= 86400 * c["max_days"]):
                    what = f"default expiration is {(E(rec['exp']) - E(rec['ts'])) / 86400:.2f} days after the timestamp, not about one year"
        except Exception as e:  # noqa: BLE001
            what = f"default dates malformed ({type(e).__name__})"
        if what:
            name = "iso8601_time_plus_delta" if rec["fn"].startswith("helper") else ("build_root_metadata" if rec["fn"] == "root" else "build_delegating_metadata")
            kind = ("29 February" if (c["m"], c["d"]) == (2, 29) else "31 December" if (c["m"], c["d"]) == (12, 31) else "28 February" if (c["m"], c["d"]) == (2, 28) else "other day")
            run.violation(f"{name} with the clock at a {kind} ({config}): {what.split(' days after')[0] if 'days after' in what else what}",
                          {"kind": "builder", "configuration": config, "record": rec, "what": what})


def judge_defaults(run, recs, config):
    P = lambda s: datetime.datetime.strptime(s, FMT)      # noqa: E731
    for rec in recs:
        run.evaluations += 1
        what = None
        try:
            if "error" in rec:
                what = "raises " + rec["error"].split(":")[0]
            elif rec["fn"] == "helper":
                d = datetime.timedelta(days=rec["days"], seconds=rec["secs"])
                if twins.twin_date(rec["got"]) != twins.ACCEPT or not (P(rec["t0"]) + d <= P(rec["got"]) <= P(rec["t1"]) + d):
                    what = "iso8601_time_plus_delta is not current UTC time plus the given delta"
            else:
                ts, ex = P(rec["ts"]), P(rec["exp"])
                if twins.twin_date(rec["ts"]) != twins.ACCEPT or twins.twin_date(rec["exp"]) != twins.ACCEPT:
                    what = "default dates are not canonical UTC timestamps"
                elif not (P(rec["t0"]) <= ts <= P(rec["t1"]) + datetime.timedelta(seconds=1)):
                    what = "default timestamp is not the current UTC time"
                elif not (datetime.timedelta(days=365) - datetime.timedelta(seconds=2) <= ex - ts <= datetime.timedelta(days=366) + datetime.timedelta(seconds=2)):
                    what = "default expiration is not about one year after the timestamp"
        except Exception as e:  # noqa: BLE001
            what = f"default dates malformed ({type(e).__name__})"
        if what:
            name = "iso8601_time_plus_delta" if rec["fn"] == "helper" else ("build_root_metadata" if rec["fn"] == "root" else "build_delegating_metadata")
            run.violation(f"{name} in configuration {config}: {what}", {"kind": "builder", "configuration": config, "record": rec})


def check(run):
    quick = run.tier == "quick"
    mc, common, auth = lib.cct("metadata_construction"), lib.cct("common"), lib.cct("authentication")
    run.rule = ("Builders.tla enumerates every argument-class tuple of build_delegating_metadata (type x delegations x version x timestamp x "
                "expiration, each default or any schema class; quick: at most one corrupted argument, thorough: two) and of "
                "build_root_metadata (key lists, thresholds, version, timestamps); each is concretised and called; TLC supplies the allowed "
                "outcome and the schema verdict on the expected result; built root chains are signed and judged by Trace_Root.tla; "
                "non-trivial = at least one non-default argument")
    r = run.tlc("Builders", "Builders_quick.cfg" if quick else "Builders_thorough.cfg", expect_cases=True, timeout=1800)
    rr = random.Random(run.seed)
    spec_version = common.SECURITY_METADATA_SPEC_VERSION
    clock_cases = [dict(tc["case"], min_days=tc["min_days"], max_days=tc["max_days"]) for tc in r.cases if tc["case"]["fn"] == "clock"]
    r.cases = [tc for tc in r.cases if tc["case"]["fn"] != "clock"]
    for tc in r.cases:
        c = tc["case"]
        args_desc = {k: v for k, v in c.items() if k != "fn"}
        if c["fn"] == "deleg":
            kw, given = {}, {}
            ty = arg_for("type", c["type"], rr)
            for f, name in (("deleg", "delegations"), ("ver", "version"), ("ts", "timestamp"), ("exp", "expiration")):
                if c[f] != "default":
                    given[name] = arg_for(f, c[f], rr)
                    kw[name] = copy.deepcopy(given[name])
            t0 = datetime.datetime.utcnow().replace(microsecond=0)
            try:
                md = mc.build_delegating_metadata(ty, **kw)
                out = "built"
            except Exception as e:  # noqa: BLE001
                md, out = None, lib.family(lib.classify(e))
            t1 = datetime.datetime.utcnow().replace(microsecond=0)
        else:
            given = {"root_version": sg.number(c["ver"], rr), "root_pubkeys": keys_for(c["rkeys"], rr), "root_threshold": thr_for(c["rthr"], rr),
                     "key_mgr_pubkeys": keys_for(c["kkeys"], rr), "key_mgr_threshold": thr_for(c["kthr"], rr)}
            if c["ts"] != "default":
                given["root_timestamp"] = not_none(lambda: sg.date(c["ts"], rr))
            if c["exp"] != "default":
                given["root_expiration"] = not_none(lambda: sg.date(c["exp"], rr))
            t0 = datetime.datetime.utcnow().replace(microsecond=0)
            try:
                md = mc.build_root_metadata(**copy.deepcopy(given))
                out = "built"
            except Exception as e:  # noqa: BLE001
                md, out = None, lib.family(lib.classify(e))
            t1 = datetime.datetime.utcnow().replace(microsecond=0)
        run.evaluations += 1
        obs = "ArgumentError" if out in ("TypeError", "ValueError") else out
        sig = f"{'build_root_metadata' if c['fn'] == 'root' else 'build_delegating_metadata'}({', '.join(f'{k}={v}' for k, v in args_desc.items() if v not in ('default',))})"
        if obs not in tc["allowed"]:
            run.violation(f"{sig}: outcome {out}, allowed {tc['allowed']}", {"kind": "builder", "case": c, "given": repr(given), "outcome": out})
        elif md is not None:
            problems = []
            if c["fn"] == "deleg":
                if not same(md.get("type"), ty):
                    problems.append("type not carried verbatim")
                exp_fields = {"delegations": given.get("delegations", {}), "version": given.get("version", 1)}
                for k in ("timestamp", "expiration"):
                    if k in given:
                        exp_fields[k] = given[k]
                for k, v in exp_fields.items():
                    if k not in md or not same(md[k], v):
                        problems.append(f"{k} not carried verbatim")
            else:
                if not same(md.get("type"), "root") or not same(md.get("version"), given["root_version"]):
                    problems.append("type/version not carried verbatim")
                d = md.get("delegations", {})
                if set(d) != {"root", "key_mgr"} or not same(d["root"], {"pubkeys": given["root_pubkeys"], "threshold": given["root_threshold"]}) \
                        or not same(d["key_mgr"], {"pubkeys": given["key_mgr_pubkeys"], "threshold": given["key_mgr_threshold"]}):
                    problems.append("root metadata does not delegate exactly root and key_mgr with the given keys and thresholds")
                for k, g in (("timestamp", "root_timestamp"), ("expiration", "root_expiration")):
                    if g in given and not same(md.get(k), given[g]):
                        problems.append(f"{k} not carried verbatim")
            if md.get("metadata_spec_version") != spec_version:
                problems.append("does not declare the library's specification version")
            if set(md) != {"type", "version", "metadata_spec_version", "timestamp", "expiration", "delegations"}:
                problems.append(f"unexpected field set {sorted(md)}")
            try:
                ts_given = "timestamp" in given or "root_timestamp" in given
                exp_given = "expiration" in given or "root_expiration" in given
                if not exp_given and tc.get("allowed") == ["built"]:
                    ex = datetime.datetime.strptime(md["expiration"], FMT)
                    if not ts_given:
                        ts = datetime.datetime.strptime(md["timestamp"], FMT)
                        if not (t0 <= ts <= t1 + datetime.timedelta(seconds=1)):
                            problems.append("default timestamp is not the current UTC time")
                        if not (datetime.timedelta(days=365) - datetime.timedelta(seconds=2) <= ex - ts <= datetime.timedelta(days=366) + datetime.timedelta(seconds=2)):
                            problems.append("default expiration is not about one year after the timestamp")
                    else:
                        # timestamp given, expiration defaulted: "about one year later" may be read from the clock or from the given timestamp
                        lo, hi = datetime.timedelta(days=365) - datetime.timedelta(seconds=3), datetime.timedelta(days=366) + datetime.timedelta(seconds=3)
                        from_now = lo <= ex - t0 <= hi
                        try:
                            from_ts = lo <= ex - datetime.datetime.strptime(md["timestamp"], FMT) <= hi
                        except Exception:  # noqa: BLE001 - a timestamp of an unspecified spelling: only the clock reading can be judged
                            from_ts = False
                        if not (from_now or from_ts):
                            problems.append("default expiration is about one year neither from now nor from the given timestamp")
            except Exception as e:  # noqa: BLE001
                problems.append(f"default dates malformed: {e}")
            supported = md.get("type") in ("root", "key_mgr") if isinstance(md.get("type"), str) else False
            if supported and tc["allowed"] == ["built"]:
                env = lib.cct("signing").wrap_as_signable(md)
                o2, e2, _ = lib.call(common.checkformat_delegating_metadata, env)
                if o2 != "accept":
                    problems.append(f"built metadata does not pass the delegating-metadata checker: {o2}")
                if twins.twin_schema(env) != twins.ACCEPT:
                    problems.append("built metadata is not accepted by the schema (twin of SchemaReq!Accepts)")
                if c["fn"] == "deleg" and tc.get("checker") != "accept":
                    raise MachineryFailure("Builders.tla and the replay disagree on which results must be schema-valid")
            for p in problems:
                run.violation(f"{'build_root_metadata' if c['fn'] == 'root' else 'build_delegating_metadata'}: {p}",
                              {"kind": "builder", "case": c, "given": repr(given), "built": repr(md)})
        if md is not None:
            # the caller goes on to edit what it got back (drafting): this must never leak into later calls
            try:
                if isinstance(md.get("delegations"), dict):
                    md["delegations"]["x-poison-%d" % run.evaluations] = {"pubkeys": ["ab" * 32], "threshold": 1}
                md["x-poison"] = True
            except Exception:  # noqa: BLE001
                pass
        if any(v not in ("default",) for k, v in c.items() if k not in ("fn", "type")):
            run._distinct.add(hashlib.sha256(json.dumps(c, sort_keys=True).encode()).hexdigest()[:16])
        run.traces_validated += 1
        if c["fn"] == "root" and tc["allowed"] == ["built"]:
            run.sample({"abstract": c, "allowed": tc["allowed"]}, cap=2)
    # the clock helper behind the default dates: canonical UTC spelling of now + delta, for a grid of deltas
    import re as _re
    for days, secs in [(0, 0), (365, 0), (31, 0), (-1, 0), (0, 1), (0, 86399), (366, 5), (3650, 0), (0, -1), (40000, 0)]:
        d = datetime.timedelta(days=days, seconds=secs)
        t0 = datetime.datetime.utcnow().replace(microsecond=0)
        s = common.iso8601_time_plus_delta(d)
        t1 = datetime.datetime.utcnow().replace(microsecond=0)
        run.evaluations += 1
        if not _re.fullmatch(r"[0-9]{4}-[0-9]{2}-[0-9]{2}T[0-9]{2}:[0-9]{2}:[0-9]{2}Z", s) or twins.twin_date(s) != twins.ACCEPT:
            run.violation("iso8601_time_plus_delta does not produce a well-formed UTC timestamp", {"kind": "builder", "delta": str(d), "got": s})
        else:
            got = datetime.datetime.strptime(s, FMT)
            if not (t0 + d <= got <= t1 + d):
                run.violation("iso8601_time_plus_delta is not current UTC time plus the given delta", {"kind": "builder", "delta": str(d), "got": s})
    for bad in (None, 5, "1 day", 1.5):
        try:
            common.iso8601_time_plus_delta(bad)
            run.violation("iso8601_time_plus_delta accepts something that is not a timedelta", {"kind": "builder", "value": repr(bad)})
        except (TypeError, ValueError):
            pass
    # the same defaults in every fresh-interpreter configuration (locale, time zone, build-environment variables)
    from .. import procs
    for cfg in procs.CONFIGS:
        recs = procs.run_job(run, {"task": "builder_defaults", "n": 3 if quick else 30, "task_modules": ["cctverif.props.c16"]}, cfg)
        judge_defaults(run, recs, cfg[0])
        run._distinct.add("defaults-" + cfg[0])
    run.extra["configurations"] = [c[0] for c in procs.CONFIGS]
    # the clock cases of Builders.tla: the builders at frozen instants, in three configurations (UTC, a far-east and a far-west time zone)
    run.mutant("Builders", "Builders_mut_expiry_any.cfg", expect="ClockInv", timeout=300)
    if not clock_cases:
        raise MachineryFailure("Builders.tla emitted no clock cases")
    for cfg in (procs.CONFIGS[0], procs.CONFIGS[2], procs.CONFIGS[3]):
        recs = procs.run_job(run, {"task": "builder_clock", "cases": clock_cases, "task_modules": ["cctverif.props.c16"]}, cfg)
        judge_clock(run, recs, cfg[0])
    for c in clock_cases:
        run._distinct.add("clock-%d-%d-%d-%d" % (c["y"], c["m"], c["d"], c["s"]))
    run.traces_validated += len(clock_cases)
    run.extra["clock_instants"] = len(clock_cases)
    # built root chains: v(n) -> v(n+1) -> v(n+2), threshold-signed with the OpenPGP signer, judged by Trace_Root.tla
    keys = gamma.Keys(4, run.seed, offset=700)
    traces, conc = [], {}
    for tid in range(1, (30 if quick else 400) + 1):
        n0 = rr.choice([1, 5, 2 ** 33])
        rules = []
        for i in range(3):
            ks = rr.sample(range(1, 5), rr.randint(1, 3))
            rules.append((ks, rr.randint(1, len(ks))))
        envs = []
        for i, (ks, t) in enumerate(rules):
            md = mc.build_root_metadata(n0 + i, [keys.pub[k] for k in ks], t, [keys.pub[1]], 1,
                                        root_timestamp=rr.choice([None, "2024-01-01T00:00:00Z"]))
            env = lib.cct("signing").wrap_as_signable(md)
            b = twin_canon(md)
            signers = set(rr.sample(ks, t))
            if i > 0:
                pks, pt = rules[i - 1]
                signers |= set(rr.sample(pks, pt))
            for k in signers:
                h = rr.choice(gamma.HEADERS)
                env["signatures"][keys.pub[k]] = {"other_headers": h.hex(), "signature": keys.sign(k, crypto.gpg_digest(b, h)).hex()}
            envs.append(env)
        evs, cs = [], []
        for a, b_ in ((0, 1), (1, 2), (0, 2), (1, 0)):
            o, e, _ = lib.call(auth.verify_root, copy.deepcopy(envs[a]), copy.deepcopy(envs[b_]))
            run.evaluations += 1
            ev = traces_root.alpha_call(envs[a], envs[b_], o)
            if ev:
                evs.append(ev)
                cs.append({"trusted": envs[a], "offered": envs[b_], "observed": o, "exc": e})
        traces.append({"id": tid, "events": evs})
        conc[tid] = cs
    traces_root.judge(run, traces, conc, lambda o: True, "built-root-chain")
    run.exhaustive = True


def replay(payload):
    print("abstract case:", payload.get("case"), "\ngiven:", payload.get("given"), "\nre-run ./check C16 (concrete arguments are regenerated from the seed)")
    return 0
