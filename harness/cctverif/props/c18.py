"""C18 In-place signing is all-or-nothing with respect to failures."""
from __future__ import annotations

import json
import tempfile

from .. import faults, inplace_engine as ie

LEVEL = "fault_enumeration"
MUTANTS = {"open_first": "NoEarlyTouch", "open_first2": "AllOrNothing", "write_in_loop": "NoEarlyTouch"}


def owns_c18(ev):
    """A rejected event belongs to C18 when the file was touched/changed by a run that did not complete."""
    return (not ev["completed"] or ev["input"] != "ok") and (ev["changed"] or ev["touched"])


def sig(ev):
    d = ev.get("doc") or {}
    return (f"in-place {ev['proc']} input={ev['input']} "
            + (f"fault-site={ev['site']} " if ev["injected"] else f"outcome={ev['outcome']} ")
            + f"target-opened-or-replaced={ev['touched']} bytes-changed={ev['changed']}")


def check(run):
    quick = run.tier == "quick"
    run.level = "fault_enumeration"
    run.rule = ("InPlace.tla enumerates procedure x input class x document shape; every case is run fault-free, every malformed-input "
                "class is run, and for representative shapes an exception is injected at EVERY line event (library frames + json "
                "encoder frames) of the fault-free run; each run is abstracted to (procedure, positively identified fault site, "
                "target opened-for-writing/renamed?, bytes changed?) and Trace_InPlace.tla searches for a behaviour of the "
                "specification that explains it; distinct_nontrivial = distinct fault sites (procedure, shape, line event) executed")
    run.tlc("InPlace", "InPlace_quick.cfg", timeout=900)
    for m, exp in MUTANTS.items():
        run.mutant("InPlace", f"InPlace_mut_{m}.cfg", expect=exp, timeout=600)
    r = run.tlc("InPlace", "InPlace_emit_quick.cfg" if quick else "InPlace_emit_thorough.cfg", expect_cases=True, timeout=1800)
    events, c11 = ie.run(run, r, fault_shapes_per_proc=3 if quick else 24)
    for pr in c11:
        if pr.get("gpg"):        # the GPG signing path's completed runs: output must be the canonical, correctly signed envelope with earlier signatures intact
            run.violation("in-place gpg signing: " + pr["problem"], {"kind": "inplace", "case": pr["case"]})
    rejected = ie.judge(run, events)
    for ev, n, conc in rejected:
        if owns_c18(ev):
            run.violation(sig(ev), {"kind": "inplace", "event": ev, "occurrences_in_run": n, **conc})
        else:
            run.note_drift("event not explained by InPlace.tla but owned by another property: " + sig(ev))
    # scale: thousands of artifacts, failures late in the run
    levents = ie.large_document_events(run, 2100 if quick else 4200, 24 if quick else 96)
    for ev, n, conc in ie.judge(run, levents):
        if owns_c18(ev):
            run.violation("large document: " + sig(ev), {"kind": "inplace_large", "event": ev, **conc})
        else:
            run.note_drift("large-document event not explained by InPlace.tla but owned by another property: " + sig(ev))
    run._distinct.update("site%d" % i for i in range(run.extra.get("fault_sites", 0)))
    run.exhaustive = True
    run.assumptions.append("faults are injected at Python line events; code inside C extensions (the ed25519 signer, file write) is atomic for the injector")


def replay(payload):
    case, n = payload["case"], payload.get("fault_at")
    with tempfile.TemporaryDirectory() as d:
        ev, tr, before, after, ctx = faults.run_case(case, d, payload["seed"], fault_at=n)
    print(json.dumps({k: v for k, v in ev.items() if k != "doc"}, default=repr))
    bad = (not ev["completed"] or ev["input"] != "ok") and ev["changed"] and ev["site"] not in ("unclassified", "none")
    if bad:
        print("VIOLATION property=C18 replay=(this file)")
    return 1 if bad else 0
