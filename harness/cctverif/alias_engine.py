"""Replay of Alias.tla: root pairs whose root rules hold the same key-list object, equal lists, or different ones; the verdict in memory and
after both documents were written to files and loaded back must be the one TLC derives from the values."""
from __future__ import annotations

import os
import random

from . import crypto, gamma, lib, metadata
from .twins import twin_canon


def replay(run, cases, persist=True):
    auth, common = lib.cct("authentication"), lib.cct("common")
    keys = gamma.Keys(3, run.seed, offset=9900)
    r = random.Random(run.seed * 71 + 5)
    wd = os.path.join(run.scratch, "alias")
    os.makedirs(wd, exist_ok=True)
    tp, op = os.path.join(wd, "t.json"), os.path.join(wd, "n.json")
    bad = []
    for c in cases:
        tlist = [keys.pub[k] for k in c["tkeys"]]
        r.shuffle(tlist)
        nlist = tlist if c["shared"] else [keys.pub[k] for k in c["nkeys"]]
        if not c["shared"]:
            r.shuffle(nlist)
        km = metadata.rule([keys.pub[1]], 1)
        tdoc = metadata.delegating_doc("root", 4, {"root": {"pubkeys": tlist, "threshold": c["tthr"]}, "key_mgr": km}, r)
        ndoc = metadata.delegating_doc("root", 5, {"root": {"pubkeys": nlist, "threshold": c["nthr"]}, "key_mgr": km if r.random() < 0.5 else dict(km)}, r)
        if c["shared"]:          # (delegating_doc copies what it is given) the offered root's rule holds the trusted root's very list object
            ndoc["delegations"]["root"]["pubkeys"] = tdoc["delegations"]["root"]["pubkeys"]
        Pb = twin_canon(ndoc)
        hdr = r.choice(gamma.HEADERS)
        sigs = {keys.pub[k]: {"other_headers": hdr.hex(), "signature": keys.sign(k, crypto.gpg_digest(Pb, hdr)).hex()} for k in c["signers"]}
        trusted, offered = {"signatures": {}, "signed": tdoc}, {"signatures": sigs, "signed": ndoc}
        o_mem = lib.call(auth.verify_root, trusted, offered)[0]
        run.evaluations += 1
        if o_mem != c["verdict"]:
            bad.append({"case": c, "why": "in-memory verdict", "observed": o_mem, "expected": c["verdict"]})
        if persist:
            common.write_metadata_to_file(trusted, tp)
            common.write_metadata_to_file(offered, op)
            o_disk = lib.call(auth.verify_root, common.load_metadata_from_file(tp), common.load_metadata_from_file(op))[0]
            run.evaluations += 1
            if o_disk != c["verdict"]:
                bad.append({"case": c, "why": "verdict after write and load", "observed": o_disk, "expected": c["verdict"], "in_memory": o_mem})
        run._distinct.add("alias-%d" % len(run._distinct))
    return bad
