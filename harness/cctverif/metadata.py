"""Concretisation of abstract delegating-metadata documents and of their malformation classes."""
from __future__ import annotations

import copy
import random

VERSION_BASES = [0, 0, 0, 5, 41, 10 ** 6, 2 ** 31, 2 ** 64]
DATES = [("2020-07-13T05:46:45Z", "2021-07-13T05:46:45Z"), ("2019-10-01T00:00:00Z", "2025-01-01T10:30:00Z"),
         ("2024-02-29T23:59:59Z", "2999-12-31T00:00:00Z")]


# role names are arbitrary strings: hierarchical (TUF style), file-name like, colliding after a transformation (suffix, case, trimming,
# Unicode normalisation), empty-ish, very long ... all of them are just names
UNUSUAL_ROLE_NAMES = ["pkg_mgr/main", "a\\b", "../root", "key_mgr.json", "root.json", "pkg_mgr.json", "Root", "ROOT", "root ", " root", "ro\u200bot", "\uff52oot",
                      "ro\u0301ot", "r\u00f3ot", "channel:main", "*", ".", "..", "x" * 300, "0", "null", "true", "__proto__", "signatures", "signed", "delegations",
                      "pubkeys", "threshold", "\U0001f511", "tab\there", "new\nline"]


def unusual_roles(r: random.Random, keyhex, n=None):
    """A few further delegations under unusual (but perfectly valid) role names."""
    names = r.sample(UNUSUAL_ROLE_NAMES, n or r.choice([1, 2, 3, 6]))
    return {nm: {"pubkeys": [keyhex] if keyhex and r.random() < 0.7 else [], "threshold": r.choice([1, 1, 2])} for nm in names}


SHADOW_POOL = []      # set by the engines: every key of the current world, so that shadowing members can name keys that would satisfy a rule


def shadow_members(delegations, r: random.Random):
    """Extra members of the signed part (extra members are allowed there) whose NAMES are those of members one level down or of the
    envelope: a top-level `pubkeys` / `threshold`, role names, `signatures` / `signed`, TUF's `keys` / `roles`.  They mean nothing."""
    pool = list(SHADOW_POOL)
    for d in delegations.values() if isinstance(delegations, dict) else []:
        if isinstance(d, dict) and isinstance(d.get("pubkeys"), list):
            pool += [k for k in d["pubkeys"] if isinstance(k, str) and k not in pool]
    rule1 = {"pubkeys": list(pool), "threshold": 1}
    cands = [("pubkeys", list(pool)), ("threshold", 1), ("root", copy.deepcopy(rule1)), ("key_mgr", copy.deepcopy(rule1)), ("pkg_mgr", copy.deepcopy(rule1)),
             ("signatures", {}), ("signed", {"type": "root", "delegations": {"root": copy.deepcopy(rule1)}}), ("keys", list(pool)), ("roles", {"root": copy.deepcopy(rule1)}),
             ("delegation", copy.deepcopy(rule1)), ("Delegations", {"root": copy.deepcopy(rule1)}), ("Version", 99), ("version ", 99)]
    return dict(r.sample(cands, r.choice([1, 2, 2, 4])))


def delegating_doc(mtype, version, delegations, r: random.Random, tag=None, with_timestamp=True):
    ts, exp = r.choice(DATES)
    d = {"type": mtype, "metadata_spec_version": r.choice(["0.6.0", "0.1.0", "1.0"]),
         "delegations": copy.deepcopy(delegations), "expiration": exp}
    if version is not None:
        d["version"] = version
    if with_timestamp or version is None:
        d["timestamp"] = ts
    if tag is not None:
        d["x-tag"] = tag      # extra fields inside the signed part are allowed by the schema
    if r.random() < 0.2:
        d.update(shadow_members(delegations, r))
    return d


def rule(pubkeys, thr):
    return {"pubkeys": list(pubkeys), "threshold": thr}


# ------------------------------------------------------------------ malformation classes
# Each entry: (name, where, fn).  where = "signed" (mutates the signed part; applied before signing so the
# signatures still cover the presented content) or "envelope" (applied to the finished envelope).
def _set(path, value):
    def f(d, r):
        cur = d
        for p in path[:-1]:
            cur = cur[p]
        cur[path[-1]] = value
    return f


def _del(path):
    def f(d, r):
        cur = d
        for p in path[:-1]:
            cur = cur[p]
        cur.pop(path[-1], None)
    return f


def _first_role(d):
    return sorted(d["delegations"])[0] if d["delegations"] else None


def _role_mut(fn):
    def f(d, r):
        role = _first_role(d)
        if role is None:
            d["delegations"]["x"] = {"pubkeys": [], "threshold": 1}
            role = "x"
        fn(d["delegations"][role], r)
    return f


def _upper_first_key(rule_, r):
    if not rule_["pubkeys"]:
        rule_["pubkeys"].append("ab" * 32)
    rule_["pubkeys"][0] = rule_["pubkeys"][0].upper() if rule_["pubkeys"][0].upper() != rule_["pubkeys"][0] else "AB" * 32


def _dup_key(rule_, r):
    if not rule_["pubkeys"]:
        rule_["pubkeys"].append("ab" * 32)
    rule_["pubkeys"].append(rule_["pubkeys"][0])


MALFORMATIONS = [
    ("missing_type", "signed", _del(["type"])),
    ("missing_delegations", "signed", _del(["delegations"])),
    ("missing_expiration", "signed", _del(["expiration"])),
    ("missing_spec_version", "signed", _del(["metadata_spec_version"])),
    ("type_unsupported", "signed", _set(["type"], "pkg_mgr")),
    ("type_not_string", "signed", _set(["type"], ["root"])),
    ("spec_version_not_string", "signed", _set(["metadata_spec_version"], 6)),
    ("delegations_list", "signed", _set(["delegations"], [])),
    ("delegation_not_object", "signed", lambda d, r: d["delegations"].__setitem__(_first_role(d) or "x", ["ab" * 32])),
    ("delegation_extra_field", "signed", _role_mut(lambda q, r: q.__setitem__("extra", 1))),
    ("delegation_missing_threshold", "signed", _role_mut(lambda q, r: q.pop("threshold"))),
    ("delegation_pubkeys_not_list", "signed", _role_mut(lambda q, r: q.__setitem__("pubkeys", {}))),
    ("delegation_key_uppercase", "signed", _role_mut(_upper_first_key)),
    ("delegation_key_duplicate", "signed", _role_mut(_dup_key)),
    ("delegation_key_short", "signed", _role_mut(lambda q, r: q["pubkeys"].append("ab" * 31))),
    ("threshold_zero", "signed", _role_mut(lambda q, r: q.__setitem__("threshold", 0))),
    ("threshold_negative", "signed", _role_mut(lambda q, r: q.__setitem__("threshold", -1))),
    ("threshold_fraction", "signed", _role_mut(lambda q, r: q.__setitem__("threshold", 1.5))),
    ("threshold_string", "signed", _role_mut(lambda q, r: q.__setitem__("threshold", "1"))),
    ("threshold_null", "signed", _role_mut(lambda q, r: q.__setitem__("threshold", None))),
    ("threshold_infinity", "signed", _role_mut(lambda q, r: q.__setitem__("threshold", float("inf")))),
    ("threshold_nan", "signed", _role_mut(lambda q, r: q.__setitem__("threshold", float("nan")))),
    ("expiration_not_string", "signed", _set(["expiration"], 20250101)),
    ("expiration_no_Z", "signed", _set(["expiration"], "2025-01-01T10:30:00")),
    ("expiration_trailing", "signed", _set(["expiration"], "2025-01-01T10:30:00Z and more")),
    ("timestamp_bad", "signed", _set(["timestamp"], "2025/01/01 10:30:00")),
    ("version_zero", "signed", _set(["version"], 0)),
    ("version_negative", "signed", _set(["version"], -3)),
    ("version_fraction", "signed", _set(["version"], 2.5)),
    ("version_string", "signed", _set(["version"], "2")),
    ("version_null", "signed", _set(["version"], None)),
    ("version_infinity", "signed", _set(["version"], float("inf"))),
    ("version_neg_infinity", "signed", _set(["version"], float("-inf"))),
    ("version_nan", "signed", _set(["version"], float("nan"))),
    ("version_list", "signed", _set(["version"], [1])),
    ("no_version_no_timestamp", "signed", lambda d, r: (d.pop("version", None), d.pop("timestamp", None))),
    ("signed_is_list", "envelope", lambda e, r: e.__setitem__("signed", [e["signed"]])),
    ("signed_is_string", "envelope", lambda e, r: e.__setitem__("signed", "root")),
    ("signed_is_int", "envelope", lambda e, r: e.__setitem__("signed", 7)),
    ("signed_is_null", "envelope", lambda e, r: e.__setitem__("signed", None)),
    ("signatures_list", "envelope", lambda e, r: e.__setitem__("signatures", [])),
    ("signatures_null", "envelope", lambda e, r: e.__setitem__("signatures", None)),
    ("extra_top_level", "envelope", lambda e, r: e.__setitem__("extra", {})),
    ("missing_signatures", "envelope", lambda e, r: e.pop("signatures")),
    ("missing_signed", "envelope", lambda e, r: e.pop("signed")),
    ("bad_signature_value", "envelope", lambda e, r: e["signatures"].__setitem__("ab" * 32, {"signature": "zz"})),
    ("bad_signature_value_str", "envelope", lambda e, r: e["signatures"].__setitem__("junk", "quux")),
]
# root only: version is mandatory
ROOT_ONLY = [("root_missing_version", "signed", _del(["version"]))]

NWF = len(MALFORMATIONS)


def apply_signed(doc, wfc, r):
    """Apply malformation class wfc (1-based; 0 = none) if it acts on the signed part."""
    if wfc and MALFORMATIONS[wfc - 1][1] == "signed":
        MALFORMATIONS[wfc - 1][2](doc, r)


def apply_envelope(env, wfc, r):
    if wfc and MALFORMATIONS[wfc - 1][1] == "envelope":
        MALFORMATIONS[wfc - 1][2](env, r)


def wf_name(wfc):
    return MALFORMATIONS[wfc - 1][0] if wfc else "ok"
