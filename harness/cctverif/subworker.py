"""Child side of procs.run_job: pre-import the configured modules, run the task against the repository,
write observations to the result file.  The child's own stdout is left as configured."""
from __future__ import annotations

import importlib
import json
import sys


def task_verify_cases(job):
    from . import verify_engine as ve
    from .tlc import decode_case_line
    out = []
    for line in job["lines"]:
        case = decode_case_line(line)
        r = ve._rng(job["seed"], line)
        o = ve.run_one(case, r, job["seed"], encoding=None, variant=job.get("variant", "main"))
        o["encoding"] = job["config"]
        out.append(o)
    return out


def task_canon_cases(job):
    from .props import c07
    return c07.task_canon_cases(job)


def task_calls_behaviours(job):
    from . import calls_engine
    out = []
    for idx, h in enumerate(job["behaviours"]):
        bad, n, ncalls = calls_engine.replay_behaviour(h, job["seed"], idx, threaded=False)
        out.append({"bad": bad, "n": n, "calls": ncalls})
    return out


def task_inplace_cases(job):
    from .props import c11
    return c11.task_inplace_cases(job)


def task_builder_defaults(job):
    from .props import c16
    return c16.task_builder_defaults(job)


def task_builder_clock(job):
    from .props import c16
    return c16.task_builder_clock(job)


TASKS = {"builder_clock": task_builder_clock, "builder_defaults": task_builder_defaults, "inplace_cases": task_inplace_cases, "verify_cases": task_verify_cases, "canon_cases": task_canon_cases, "calls_behaviours": task_calls_behaviours}


def main():
    with open(sys.argv[1]) as f:
        job = json.load(f)
    import os
    repo = os.path.abspath(os.environ.get("VERIF_REPO", "/repo"))
    if repo not in sys.path[:1]:
        sys.path.insert(0, repo)          # pre-imports of library modules must come from the tree under verification
    for m in job.get("preimports", []):
        importlib.import_module(m)
    for mod in job.get("task_modules", []):
        importlib.import_module(mod)
    res = TASKS[job["task"]](job)
    with open(job["result"], "w") as f:
        json.dump(res, f, default=repr)


if __name__ == "__main__":
    main()
