"""C13: every argument position / JSON path of every public validator and verifier, replaced by every wrong
kind of value.  Each call is executed under a watchdog; the outcome class is logged; events that alpha can
classify are judged by the verifier trace specs (named situations), all events by Errors.tla (families)."""
from __future__ import annotations

import copy
import datetime
import decimal
import fractions
import json
import multiprocessing as mp
import os
import random
import signal

from . import crypto, gamma, lib, metadata
from .twins import twin_canon

INF = float("inf")


def deep(n):
    x = []
    for _ in range(n):
        x = [x]
    return x


class StrSub(str):
    pass


class IntSub(int):
    pass


class DictSub(dict):
    pass


JSON_KINDS = [("null", None), ("true", True), ("zero", 0), ("one", 1), ("minus1", -1), ("huge", 2 ** 70), ("frac", 1.5), ("intfloat", 1.0),
              ("inf", INF), ("neginf", -INF), ("nan", float("nan")), ("e308", 1e308), ("empty_str", ""), ("str", "x"),
              ("empty_list", []), ("list", ["x"]), ("empty_dict", {}), ("dict", {"x": "x"}), ("deep100", deep(100)),
              ("nonascii", "ключ é"), ("surrogate", "\ud800"), ("int400", 10 ** 400), ("negint400", -(10 ** 400)), ("float300", 1e300),
              ("int_2_53", 2 ** 53 + 1), ("braces", "{}"), ("fmt_field", "{role}"), ("fmt_attr", "{0.__class__}"), ("percent", "%s %(x)d %"),
              ("nul", "a\x00b"), ("long_str", "x" * 100000),
              # containers whose LENGTH equals that of a fingerprint / key / signature string, made of single hex characters
              ("list40", list("0a" * 20)), ("list64", list("0a" * 32)), ("list128", list("0a" * 64)), ("dict40", {"%02d" % i: None for i in range(40)}),
              ("dict_hexchars", dict.fromkeys("0123456789abcdef")), ("list2_hexchars", ["0", "4"])]
PY_KINDS = [("bytes", b"ab" * 32), ("bytearray", bytearray(b"ab")), ("tuple", ("x",)), ("set", {"x"}), ("frozenset", frozenset({"x"})),
            ("complex", 1j), ("decimal", decimal.Decimal("1")), ("fraction", fractions.Fraction(1, 1)), ("object", object()),
            ("decimal_nan", decimal.Decimal("NaN")), ("decimal_inf", decimal.Decimal("Infinity")),      # (a SIGNALLING NaN, whose every comparison raises by design, counts as a hostile object: out of scope)
            ("decimal_1e30", decimal.Decimal("1E+30")), ("decimal_frac", decimal.Decimal("1.5")), ("fraction_half", fractions.Fraction(3, 2)),
            ("strsub", StrSub("ab" * 32)), ("intsub", IntSub(1)), ("dictsub", DictSub()), ("timedelta", datetime.timedelta(1))]


def paths(x, prefix=()):
    """All JSON paths of a structure (containers included)."""
    yield prefix
    if isinstance(x, dict):
        for k in x:
            yield from paths(x[k], prefix + (k,))
    elif isinstance(x, list):
        for i in range(len(x)):
            yield from paths(x[i], prefix + (i,))


def get_at(x, p):
    for k in p:
        x = x[k]
    return x


def replace_at(x, p, value, delete=False):
    x = copy.deepcopy(x)
    if not p:
        return copy.deepcopy(value)
    cur = x
    for k in p[:-1]:
        cur = cur[k]
    if delete:
        del cur[p[-1]]
    else:
        cur[p[-1]] = copy.deepcopy(value) if not isinstance(value, (set, frozenset, bytearray)) and type(value).__name__ != "object" else value
    return x


def siblings(x, p):
    """A valid value of a sibling field (same parent, different key)."""
    if not p:
        return []
    parent = get_at(x, p[:-1])
    if isinstance(parent, dict):
        return [parent[k] for k in parent if k != p[-1]][:2]
    return []


def fixtures(seed):
    """Valid argument tuples for every API."""
    r = random.Random(seed)
    keys = gamma.Keys(3, seed, offset=600)
    pubs = [keys.pub[k] for k in (1, 2, 3)]
    root1 = metadata.delegating_doc("root", 1, {"root": metadata.rule(pubs[:2], 2), "key_mgr": metadata.rule([pubs[2]], 1)}, r)
    root2 = metadata.delegating_doc("root", 2, {"root": metadata.rule(pubs[:2], 1), "key_mgr": metadata.rule([pubs[2]], 1)}, r)
    km = metadata.delegating_doc("key_mgr", 1, {"pkg_mgr": metadata.rule([pubs[0]], 1)}, r)
    hdr = gamma.HEADERS[0]

    def gsign(doc, ks):
        b = twin_canon(doc)
        return {keys.pub[k]: {"other_headers": hdr.hex(), "signature": keys.sign(k, crypto.gpg_digest(b, hdr)).hex()} for k in ks}

    def rsign(doc, ks):
        b = twin_canon(doc)
        return {keys.pub[k]: {"signature": keys.sign(k, b).hex()} for k in ks}
    e_root1 = {"signatures": gsign(root1, [1, 2]), "signed": root1}
    e_root2 = {"signatures": gsign(root2, [1, 2]), "signed": root2}
    e_km = {"signatures": rsign(km, [3]), "signed": km}
    root2f = dict(root2, version=2.0)
    e_root2f = {"signatures": gsign(root2f, [1, 2]), "signed": root2f}
    root1h, root2h = dict(root1, version=10 ** 400), dict(root2, version=10 ** 400 + 1)
    e_root1h = {"signatures": gsign(root1h, [1, 2]), "signed": root1h}
    e_root2h = {"signatures": gsign(root2h, [1, 2]), "signed": root2h}
    payload = {"name": "pkg", "version": "1.0", "depends": ["a", "b"], "size": 3}
    e_pkg = {"signatures": rsign(payload, [1]), "signed": payload}
    data = twin_canon(payload)
    rawsig = keys.sign(1, data).hex()
    gsig = {"other_headers": hdr.hex(), "signature": keys.sign(1, crypto.gpg_digest(data, hdr)).hex()}
    return {"keys": keys, "pubs": pubs, "e_root1": e_root1, "e_root2": e_root2, "e_root2f": e_root2f, "e_root1h": e_root1h, "e_root2h": e_root2h, "e_km": e_km, "e_pkg": e_pkg, "data": data,
            "rawsig": rawsig, "gsig": gsig}


def api_table(fx):
    """name -> (callable getter, list of valid arguments, kwargs, which args are JSON structures)"""
    c, a = lib.cct("common"), lib.cct("authentication")
    pub_obj = c.PublicKey.from_hex(fx["pubs"][0])
    t = {
        "verify_signable": (a.verify_signable, [fx["e_pkg"], [fx["pubs"][0], fx["pubs"][1]], 1, False]),
        "verify_signable:gpg": (a.verify_signable, [fx["e_root2"], fx["pubs"][:2], 1, True]),
        "verify_delegation": (a.verify_delegation, ["key_mgr", fx["e_km"], fx["e_root1"], False]),
        "verify_delegation:pkg": (a.verify_delegation, ["pkg_mgr", fx["e_pkg"], fx["e_km"], False]),
        "verify_delegation:gpg": (a.verify_delegation, ["root", fx["e_root2"], fx["e_root1"], True]),
        "verify_root": (a.verify_root, [fx["e_root1"], fx["e_root2"]]),
        "verify_root:floatver": (a.verify_root, [fx["e_root1"], fx["e_root2f"]]),      # offered version given as an integral float (unspecified class)
        "verify_root:hugever": (a.verify_root, [fx["e_root1h"], fx["e_root2h"]]),      # versions beyond float range
        "verify_signature": (a.verify_signature, [fx["rawsig"], pub_obj, fx["data"]]),
        "verify_gpg_signature": (a.verify_gpg_signature, [fx["gsig"], fx["pubs"][0], fx["data"]]),
        "checkformat_delegating_metadata": (c.checkformat_delegating_metadata, [fx["e_root1"]]),
        "checkformat_delegations": (c.checkformat_delegations, [fx["e_root1"]["signed"]["delegations"]]),
        "checkformat_delegation": (c.checkformat_delegation, [fx["e_root1"]["signed"]["delegations"]["root"]]),
        "checkformat_signable": (c.checkformat_signable, [fx["e_pkg"]]),
        "is_signable": (c.is_signable, [fx["e_pkg"]]),
        "checkformat_signature": (c.checkformat_signature, [{"signature": fx["rawsig"]}]),
        "is_signature": (c.is_signature, [fx["gsig"]]),
        "checkformat_gpg_signature": (c.checkformat_gpg_signature, [dict(fx["gsig"], see_also="f0" * 20)]),
        "is_gpg_signature": (c.is_gpg_signature, [fx["gsig"]]),
        "checkformat_any_signature": (c.checkformat_any_signature, [fx["gsig"]]),
        "checkformat_hex_key": (c.checkformat_hex_key, [fx["pubs"][0]]),
        "is_hex_key": (c.is_hex_key, [fx["pubs"][0]]),
        "checkformat_hex_string": (c.checkformat_hex_string, ["ab12"]),
        "is_hex_string": (c.is_hex_string, ["ab12"]),
        "is_hex_signature": (c.is_hex_signature, [fx["rawsig"]]),
        "checkformat_list_of_hex_keys": (c.checkformat_list_of_hex_keys, [fx["pubs"]]),
        "checkformat_gpg_fingerprint": (c.checkformat_gpg_fingerprint, ["f0" * 20]),
        "is_gpg_fingerprint": (c.is_gpg_fingerprint, ["f0" * 20]),
        "checkformat_natural_int": (c.checkformat_natural_int, [3]),
        "checkformat_string": (c.checkformat_string, ["x"]),
        "checkformat_utc_isoformat": (c.checkformat_utc_isoformat, ["2025-01-01T10:30:00Z"]),
        "checkformat_byteslike": (c.checkformat_byteslike, [b"x"]),
        "checkformat_expiration_distance": (c.checkformat_expiration_distance, [datetime.timedelta(days=1)]),
        "checkformat_key": (c.checkformat_key, [pub_obj]),
    }
    return t


class Timeout(Exception):
    pass


def _alarm(signum, frame):
    raise Timeout()


def execute(name, fn, args):
    """Run one call under a 10 s watchdog; returns outcome class string."""
    api = name.split(":")[0]
    signal.signal(signal.SIGALRM, _alarm)
    signal.alarm(10)
    try:
        with lib.stdout_as("utf-8"):
            kw = {}
            a = list(args)
            if api in ("verify_signable", "verify_delegation") and len(a) == 4:
                kw["gpg"] = a.pop()
            res = fn(*a, **kw)
        if api.startswith("is_"):
            return "True" if res is True else "False" if res is False else "returned:" + type(res).__name__
        return "accept"
    except Timeout:
        return "internal:TIMEOUT"
    except RecursionError:
        return "internal:RecursionError"
    except Exception as e:  # noqa: BLE001
        return lib.family(lib.classify(e))
    finally:
        signal.alarm(0)


def single_mutations(args, r, py_kinds=True):
    """Yield (description, mutated args) for every position x kind."""
    for ai, arg in enumerate(args):
        is_json = isinstance(arg, (dict, list))
        plist = list(paths(arg)) if is_json else [()]
        for p in plist:
            kinds = list(JSON_KINDS)
            if py_kinds:
                kinds += PY_KINDS
            for kname, kval in kinds:
                try:
                    new = replace_at(arg, p, kval)
                except Exception:  # noqa: BLE001
                    continue
                yield (ai, p, kname), args[:ai] + [new] + args[ai + 1:]
            orig = get_at(arg, p) if is_json else arg
            if isinstance(orig, str) and orig:
                # type confusion that keeps the characters: the string as an array / object of its characters
                for kname, kval in (("as_char_list", list(orig)), ("as_char_dict", dict.fromkeys(orig)), ("as_char_tuple", tuple(orig)), ("as_bytes", orig.encode("utf-8", "surrogatepass"))):
                    if kname in ("as_char_tuple", "as_bytes") and not py_kinds:
                        continue
                    try:
                        yield (ai, p, kname), args[:ai] + [replace_at(arg, p, kval)] + args[ai + 1:]
                    except Exception:  # noqa: BLE001
                        pass
            if p:
                yield (ai, p, "absent"), args[:ai] + [replace_at(arg, p, None, delete=True)] + args[ai + 1:]
                for s in siblings(arg, p):
                    yield (ai, p, "sibling"), args[:ai] + [replace_at(arg, p, s)] + args[ai + 1:]
            if isinstance(get_at(arg, p) if is_json else arg, dict):
                tgt = get_at(arg, p) if is_json else arg
                dup = dict(tgt)
                dup["x-extra"] = 1
                yield (ai, p, "extra_field"), args[:ai] + [replace_at(arg, p, dup) if is_json else dup] + args[ai + 1:]
