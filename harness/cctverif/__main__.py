"""./check <property id> [--tier quick|thorough] [--replay <path>]"""
from __future__ import annotations

import argparse
import importlib
import json
import os
import sys
import traceback

from .core import Run
from .tlc import MachineryFailure

LEVELS = {}


def main(argv=None):
    ap = argparse.ArgumentParser(prog="check")
    ap.add_argument("pid")
    ap.add_argument("--tier", default=os.environ.get("VERIF_TIER") or "quick", choices=["quick", "thorough"])
    ap.add_argument("--replay", default=None)
    ap.add_argument("--seed", type=int, default=None)
    a = ap.parse_args(argv)
    seed = a.seed if a.seed is not None else int(os.environ.get("VERIF_SEED") or 0)
    pid = a.pid.upper()
    try:
        mod = importlib.import_module(f".props.{pid.lower()}", __package__)
    except ModuleNotFoundError:
        print(f"no check for {pid}", file=sys.stderr)
        return 2
    if a.replay:
        with open(a.replay) as f:
            payload = json.load(f)
        return mod.replay(payload)
    run = Run(pid, a.tier, seed, getattr(mod, "LEVEL", "model_checking"))
    try:
        mod.check(run)
    except MachineryFailure as e:
        print(f"MACHINERY FAILURE in {pid}: {e}", file=sys.stderr)
        return 2
    except Exception as e:  # noqa: BLE001
        # An exception that escapes from repository code at a point where the harness expects the call to succeed (the
        # specification says it does) is an observation about the library, not a failure of the machinery.
        from .core import REPO
        tb = traceback.extract_tb(e.__traceback__)
        lib_frames = [f for f in tb if f.filename.startswith(os.path.join(REPO, "conda_content_trust") + os.sep)]
        if not lib_frames:
            traceback.print_exc()
            print(f"MACHINERY FAILURE in {pid} (harness exception)", file=sys.stderr)
            return 2
        harness_frames = [f for f in tb if "cctverif" in f.filename]
        where = harness_frames[-1].name if harness_frames else "?"
        run.violation(f"library function {lib_frames[0].name} raised {type(e).__name__} where the specification expects it to succeed (harness step {where})",
                      {"kind": "unexpected_exception", "traceback": traceback.format_exception(e)[-12:]})
    return run.finish()


if __name__ == "__main__":
    sys.exit(main())
