"""./check <property id> [--tier quick|thorough] [--replay <path>]"""
from __future__ import annotations

import argparse
import importlib
import json
import os
import sys
import traceback

from .core import Run
from .tlc import MachineryFailure

LEVELS = {}


def main(argv=None):
    ap = argparse.ArgumentParser(prog="check")
    ap.add_argument("pid")
    ap.add_argument("--tier", default=os.environ.get("VERIF_TIER") or "quick", choices=["quick", "thorough"])
    ap.add_argument("--replay", default=None)
    ap.add_argument("--seed", type=int, default=None)
    a = ap.parse_args(argv)
    seed = a.seed if a.seed is not None else int(os.environ.get("VERIF_SEED") or 0)
    pid = a.pid.upper()
    try:
        mod = importlib.import_module(f".props.{pid.lower()}", __package__)
    except ModuleNotFoundError:
        print(f"no check for {pid}", file=sys.stderr)
        return 2
    if a.replay:
        with open(a.replay) as f:
            payload = json.load(f)
        return mod.replay(payload)
    run = Run(pid, a.tier, seed, getattr(mod, "LEVEL", "model_checking"))
    try:
        mod.check(run)
    except MachineryFailure as e:
        print(f"MACHINERY FAILURE in {pid}: {e}", file=sys.stderr)
        return 2
    except Exception:  # noqa: BLE001
        traceback.print_exc()
        print(f"MACHINERY FAILURE in {pid} (harness exception)", file=sys.stderr)
        return 2
    return run.finish()


if __name__ == "__main__":
    sys.exit(main())
