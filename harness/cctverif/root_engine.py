"""Replay of Root.tla's enumerated (trusted, offered) pairs into authentication.verify_root."""
from __future__ import annotations

import copy
import hashlib
import json
import multiprocessing as mp

from . import gamma, lib, metadata
from . import verify_engine as ve
from .tlc import decode_case_line
from .twins import twin_canon


def build_root(d, keys, r, base, tag):
    dels = {"key_mgr": metadata.rule([keys.pub[1]], 1)}
    if d["hasroot"]:
        rk = [keys.pub[int(k)] for k in d["rk"]]
        r.shuffle(rk)
        dels["root"] = metadata.rule(rk, d["rt"])
    if d["type"] != "root":
        dels = {"pkg_mgr": metadata.rule([keys.pub[1]], 1), **({"root": dels["root"]} if "root" in dels else {})}      # (hasroot says whether a rule for "root" is there)
    if r.random() < 0.35:
        # further roles under names that resemble the two built-in ones (older spellings, file names, other normal forms), each with a rule
        # that ANY signature present would satisfy: only the rule filed under exactly "root" is the root rule
        easy = metadata.rule([keys.pub[k] for k in sorted(keys.pub) if k >= 1], 1)
        for nm in r.sample(["root.json", "Root", "root ", "ROOT", "1.root", "root.1", "roots", "\uff52oot", "key_mgr.json", "default", "*"], r.choice([1, 2, 3])):
            dels[nm] = copy.deepcopy(easy)
    doc = metadata.delegating_doc(d["type"], base + d["ver"], dels, r, tag=tag)
    metadata.apply_signed(doc, d["wfc"], r)
    return doc


def concretise(case, r, seed):
    nk = len(case["e"])
    keys = ve._keys(nk, seed)
    metadata.SHADOW_POOL = list(keys.pub.values())
    base = r.choice(metadata.VERSION_BASES)
    if case["t"]["wf"] != "ok" or case["n"]["wf"] != "ok":
        base = 0          # malformed versions (0, -3, ...) then sit right next to the other document's version: 0 -> 1 is a "successor" only for a checker that lets 0 through
    tdoc = build_root(case["t"], keys, r, base, "trusted")
    trusted = {"signatures": {}, "signed": tdoc}
    if r.random() < 0.5 and case["t"]["wf"] == "ok":     # the trusted root may carry its own (irrelevant) signatures
        trusted["signatures"][keys.pub[1]] = {"other_headers": gamma.HEADERS[0].hex(),
                                              "signature": keys.sign(1, b"whatever").hex()}
    metadata.apply_envelope(trusted, case["t"]["wfc"], r)
    ndoc = build_root(case["n"], keys, r, base, "offered")
    Pb = twin_canon(ndoc)
    qdoc = copy.deepcopy(ndoc)
    if isinstance(qdoc, dict):
        qdoc["x-tag"] = "another root"
    Qb = twin_canon(qdoc)
    sigs = gamma.build_sigmap(case, keys, Pb, Qb, r, nonascii=True, surrogates=True)
    new = {"signatures": sigs, "signed": ndoc}
    gamma.prime_related(case, keys, sigs, qdoc)
    metadata.apply_envelope(new, case["n"]["wfc"], r)
    if r.random() < 0.3 and isinstance(new, dict) and isinstance(new.get("signed"), dict):
        # the offered root was made from the trusted one by copy-and-edit: equal parts (key lists, rules, delegation maps) are the same objects
        new["signed"] = gamma.share_equal_parts(new["signed"], trusted, r, 0.8)
    return trusted, new


def run_one(case, r, seed, variant="main"):
    trusted, new = concretise(case, r, seed)
    snap = (copy.deepcopy(trusted), copy.deepcopy(new))
    enc = r.choice(["utf-8"] * 10 + ["ascii", "ascii", "ascii", "latin-1", "latin-1", "cp1252", "cp1252", "cp437", "cp437"] + lib.BROKEN_STDOUTS)      # verdicts must not depend on stdout
    out, exc, printed = lib.call(lib.cct("authentication").verify_root, trusted, new, encoding=enc)
    try:
        mutated = twin_canon(trusted) != twin_canon(snap[0]) or twin_canon(new) != twin_canon(snap[1])
    except TypeError:
        mutated = repr(trusted) != repr(snap[0]) or repr(new) != repr(snap[1])
    return {"variant": variant, "observed": out, "exc": exc, "allowed": case["allowed"], "mutated": mutated, "stdout_encoding": enc,
            "unjudged": enc.startswith("broken:") and out != "accept",      # with a dead stdout only a wrongful acceptance is judged
            "concrete": {"trusted": snap[0], "offered": snap[1]}, "case": case}


def run_stripped(case, r, seed):
    c2 = dict(case)
    keep = set(int(k) for k in case["old_signers"]) | set(int(k) for k in case["new_signers"])
    c2["e"] = [v if i in keep else ["absent", "none", "-", "-", False] for i, v in enumerate(case["e"], 1)]
    c2["alt"] = c2["junk"] = ["absent", "none", "-", "-", False]
    o = run_one(c2, r, seed, variant="stripped")
    o["case"] = case
    return o


def _work(args):
    lines, seed, opts = args
    res = {"n": 0, "bad": [], "samples": [], "hashes": [], "accepts": 0}
    for line in lines:
        case = decode_case_line(line)
        r = ve._rng(seed, line)
        obs = [run_one(case, r, seed)]
        if opts.get("strip") and (case["allowed"] == ["accept"] or obs[0]["observed"] == "accept"):      # every ACCEPTED envelope is presented again, stripped to its valid authorized signatures
            obs.append(run_stripped(case, r, seed))
        for o in obs:
            res["n"] += 1
            res["accepts"] += o["observed"] == "accept"
            if o.get("unjudged"):
                continue
            if o["variant"] == "stripped" and obs[0]["observed"] == "accept" and o["observed"] != "accept":
                o["strip_mismatch"] = True      # accepted, but not when reduced to its valid signatures by authorized keys: something else made it pass
                res["bad"].append(o)
            elif lib.family(o["observed"]) not in o["allowed"] or o.get("mutated"):
                res["bad"].append(o)
        trivial = all(v[0] == "absent" for v in case["e"])
        res["hashes"].append((hashlib.sha256(line.encode()).hexdigest()[:16], not trivial))
        if not res["samples"]:
            res["samples"].append({"abstract": case, "concrete": obs[0]["concrete"], "observed": obs[0]["observed"]})
    return res


def replay(run, tlc_result, opts=None, procs=16):
    opts = opts or {}
    bad = []
    lib.cct("authentication")
    accepts = 0
    with mp.get_context("fork").Pool(procs) as pool:
        it = ((b, run.seed, opts) for b in ve.batches(tlc_result.case_file, every=opts.get("every", 1)))
        for res in pool.imap_unordered(_work, it):
            run.evaluations += res["n"]
            accepts += res["accepts"]
            for h, nt in res["hashes"]:
                if nt:
                    run._distinct.add(h)
            bad.extend(res["bad"])
            for s in res["samples"]:
                run.sample(s)
    run.extra["accepting_executions"] = run.extra.get("accepting_executions", 0) + accepts
    run.traces_validated += max(0, tlc_result.ncases - len({json.dumps(o["case"], sort_keys=True) for o in bad}))
    return bad


def coarse_sig(o):
    if o.get("strip_mismatch"):
        return _coarse_sig({**o, "strip_mismatch": False}) + " - although the envelope as presented was ACCEPTED"
    return _coarse_sig(o)


def _coarse_sig(o):
    c = o["case"]
    t, n = c["t"], c["n"]
    why = []
    if t["wf"] != "ok":
        why.append("trusted:" + metadata.wf_name(t["wfc"]))
    if n["wf"] != "ok":
        why.append("offered:" + metadata.wf_name(n["wfc"]))
    if t["type"] != "root" or n["type"] != "root":
        why.append(f"types={t['type']}/{n['type']}")
    if not t["hasroot"]:
        why.append("trusted-has-no-root-rule")
    if not n["hasroot"]:
        why.append("offered-has-no-root-rule")
    if not why:
        why.append("dver=%+d" % (n["ver"] - t["ver"]))
        why.append("old_rule_%s" % ("met" if len(c["old_signers"]) >= t["rt"] else "unmet"))
        why.append("new_rule_%s" % ("met" if len(c["new_signers"]) >= n["rt"] else "unmet"))
    return f"verify_root[{o['variant']}] {' '.join(why)} allowed={'|'.join(sorted(c['allowed']))} observed={o['observed']}"
