"""Replay of Signing.tla's paths (wrap / sign / edit / junk / write / load) through the real signing and file API.

After every step the abstraction of the real envelope must equal the specification's state, the signature
bytes must equal an independent RFC 8032 signer's, the file bytes must be the canonical bytes, and the
verifier must accept exactly for thresholds up to the number of authorized signers the spec computed."""
from __future__ import annotations

import copy
import hashlib
import itertools
import json
import multiprocessing as mp
import os
import random

from . import crypto, gamma, lib
from . import verify_engine as ve
from .tlc import decode_case_line
from .traces_verify import oracle_verify
from .twins import twin_canon

STRESS_PAYLOADS = [
    lambda r: {"f": [0.1, 1e16, 1e-7, -0.0, 5e-324, 1.7976931348623157e308, 123456789.123456789], "n": r.randint(0, 99)},
    lambda r: {"u": "é ￿\U0001f600", "s": "lone \ud800 and \udfff", "kéy": [r.randint(0, 9)]},
    lambda r: {"big": 2 ** 64 + r.randint(0, 9), "neg": -(10 ** 30), "nested": [[[{"a": [None, True, False]}]]]},
    lambda r: {"nan": float("nan"), "inf": float("inf"), "ninf": float("-inf"), "r": r.randint(0, 9)},
    lambda r: {"esc": "\"\\/\b\f\n\r\t\x00\x1f\x7f", "empty": {}, "el": [], "r": r.randint(0, 9)},
    lambda r: [r.randint(0, 9), 2.5, "x", None, {"z": "\ud83d"}],
]


EQUAL_BUT_DIFFERENT = [({"n": 1, "l": [0, 2]}, {"n": 1.0, "l": [0, 2]}), ({"n": 1}, {"n": True}), ({"z": 0.0, "k": "v"}, {"z": -0.0, "k": "v"}),
                       ({"n": [1, 0]}, {"n": [True, False]}), ({"x": 2 ** 53}, {"x": float(2 ** 53)})]


NEAR_PAIRS = [({"s": "caf\u00e9 \ud83d"}, {"s": "caf\u00e9 \udc00"}), ({"s": "x\ud800"}, {"s": "x?"}), ({"s": "\u00e9"}, {"s": "e\u0301"}),
              ({"k\ud800": 1}, {"k\udfff": 1}), ({"t": "a"}, {"t": "a "}), ({"l": [1, 2]}, {"l": [2, 1]}), ({"n": "1"}, {"n": 1}),
              ({"a": {"b": 1}}, {"a": {"b": 1, "c": None}}), ({"u": "\u2028"}, {"u": "\u2029"}), ({"e": ""}, {"e": None})]


def payload_pair(r, stress):
    if r.random() < 0.2:
        a, b = r.choice(NEAR_PAIRS)               # payloads that differ minimally (what a lossy serializer would conflate)
        return (copy.deepcopy(a), copy.deepcopy(b)) if r.random() < .5 else (copy.deepcopy(b), copy.deepcopy(a))
    if stress and r.random() < 0.25:
        a, b = r.choice(EQUAL_BUT_DIFFERENT)      # equal under Python's ==, different JSON values / canonical bytes
        return (copy.deepcopy(a), copy.deepcopy(b)) if r.random() < .5 else (copy.deepcopy(b), copy.deepcopy(a))
    if stress and r.random() < 0.6:
        P = r.choice(STRESS_PAYLOADS)(r)
        Q = copy.deepcopy(P)
        if isinstance(Q, dict):
            Q["_edited"] = r.choice([0, "x", None, 1.5])
        else:
            Q.append("edited")
        return P, Q
    return gamma.make_payloads(r)


def poison(x):
    """Modify, in place, every mutable container reachable from x (also through tuples); returns whether anything could be modified."""
    done = False
    if isinstance(x, dict):
        for v in list(x.values()):
            done = poison(v) or done
        x["__poison__"] = "changed by the caller after wrapping"
        done = True
    elif isinstance(x, list):
        for v in x:
            done = poison(v) or done
        x.append("changed by the caller after wrapping")
        done = True
    elif isinstance(x, tuple):
        for v in x:
            done = poison(v) or done
    return done


def unserialisable(r, env):
    """A variant of the envelope whose canonical serialisation fails."""
    kind = r.choice(["nested 3000 deep", "a set", "bytes", "keys of mixed types", "an object", "nested 100000 deep in the signatures", "a 5000-digit integer"])
    e = copy.deepcopy(env)
    if kind.startswith("nested"):
        v = 0
        for _ in range(100000 if "100000" in kind else 3000):
            v = [v]
        if "signatures" in kind:
            e["signatures"]["zz"] = v
        else:
            e["signed"] = {"payload": e["signed"], "zz-deep": v}
    elif kind == "a set":
        e["signed"] = {"payload": e["signed"], "zz": {1, 2}}
    elif kind == "bytes":
        e["signed"] = {"payload": e["signed"], "zz": b"raw"}
    elif kind == "keys of mixed types":
        e["signed"] = {"payload": e["signed"], 5: "five"}
    elif kind == "an object":
        e["zz"] = object()
    else:
        e["signed"] = {"payload": e["signed"], "zz": 10 ** 5000}
    return kind, e


def run_path(hist, seed, line_key, workdir, stress=False):
    r = random.Random(int.from_bytes(hashlib.sha256(b"%d|" % seed + line_key.encode()).digest()[:8], "big"))
    signing, common, auth = lib.cct("signing"), lib.cct("common"), lib.cct("authentication")
    nk = 1
    for e in hist:
        if "after" in e:
            nk = len(e["after"]["sigs"])
            break
    keys = ve._keys(nk, seed)
    P1, P2 = payload_pair(r, stress)
    vals = {"p1": P1, "p2": P2}
    canon = {k: twin_canon(v) for k, v in vals.items()}
    junk_n = gamma.junk_name(r, nonascii=True, surrogates=True)
    junk_v = copy.deepcopy(r.choice(gamma.JUNK_VALUES))
    path = os.path.join(workdir, "env-%d-%s.json" % (os.getpid(), line_key[:12]))
    env = None
    bad = []
    n_exec = 0

    def fail(i, why, **kw):
        bad.append({"step": i, "action": hist[i], "why": why, **kw})

    for i, ev in enumerate(hist):
        a = ev["a"]
        before = copy.deepcopy(env)
        try:
            if a == "wrap":
                src = copy.deepcopy(vals[ev["p"]])
                if isinstance(src, list) and r.random() < 0.5:
                    src = tuple(src)             # a tuple is a supported payload type (it serialises as an array); what it contains stays mutable
                env = signing.wrap_as_signable(src)
                if set(env) != {"signatures", "signed"} or env["signatures"] != {} or twin_canon(env["signed"]) != canon[ev["p"]]:
                    fail(i, "wrap_as_signable did not return {'signatures': {}, 'signed': <the payload>}")
                # the caller goes on using (and changing) what it passed in: the envelope keeps carrying the payload that was wrapped
                if poison(src) and twin_canon(env["signed"]) != canon[ev["p"]]:
                    fail(i, "the envelope's payload changed when the caller modified the object it had passed to wrap_as_signable")
            elif a == "sign":
                k = ev["k"]
                signing.sign_signable(env, common.PrivateKey.from_bytes(keys.seeds[k]))
                pub = keys.pub[k]
                cur = twin_canon(env["signed"])
                want = crypto.ed25519_ref_sign(keys.seeds[k], cur) if r.random() < 0.05 else crypto.fast_sign(keys.seeds[k], cur)
                got = env["signatures"].get(pub)
                if got != {"signature": want.hex()}:
                    fail(i, "entry filed under the signer's public key is not {'signature': RFC 8032 signature over the canonical payload}",
                         got=got, want=want.hex())
                for n, v in (before or {}).get("signatures", {}).items():
                    if n != pub and (n not in env["signatures"] or twin_canon(env["signatures"][n]) != twin_canon(v)):
                        fail(i, "sign_signable touched another entry", name=n)
                if twin_canon(env["signed"]) != twin_canon(before["signed"]):
                    fail(i, "sign_signable changed the payload")
                if set(env["signatures"]) - set(before["signatures"]) - {pub}:
                    fail(i, "sign_signable added foreign entries")
            elif a == "edit":
                new = copy.deepcopy(vals[ev["p"]])
                if isinstance(env["signed"], dict) and isinstance(new, dict) and r.random() < 0.5:
                    env["signed"].clear()          # in-place edit of the caller's object
                    env["signed"].update(new)
                else:
                    env["signed"] = new
            elif a == "junk":
                env["signatures"][junk_n] = copy.deepcopy(junk_v)
            elif a == "write":
                if stress and not os.path.exists(path) and r.random() < 0.5:
                    with open(path, "w") as f:          # a file already there: the same value as emitted by another tool (compact, unsorted)
                        json.dump(env, f)
                common.write_metadata_to_file(env, path)
                with open(path, "rb") as f:
                    data = f.read()
                if data != twin_canon(env):
                    fail(i, "file written is not the canonical serialization of the value", got=data[:200].decode("latin-1"))
            elif a == "write_fail":
                with open(path, "rb") as f:
                    stored = f.read()
                kind, badval = unserialisable(r, env)
                try:
                    common.write_metadata_to_file(badval, path)
                    raised = False
                except (RecursionError, TypeError, ValueError, OverflowError, AttributeError):
                    raised = True
                with open(path, "rb") as f:
                    now = f.read()
                if raised and now != stored:
                    fail(i, f"a write that failed ({kind}) changed the file stored earlier at that path", got=now[:120].decode("latin-1"))
                elif not raised:             # this configuration can serialise it after all: put the stored file back
                    with open(path, "wb") as f:
                        f.write(stored)
            elif a == "load":
                env = common.load_metadata_from_file(path)
                with open(path, "rb") as f:
                    data = f.read()
                if twin_canon(env) != data:
                    fail(i, "loaded value does not re-serialize to the file's bytes")
            n_exec += 1
        except Exception as ex:  # noqa: BLE001
            fail(i, f"{a} raised {type(ex).__name__}: {ex}")
            break
        if "after" not in ev:
            continue
        # alpha(envelope) vs the specification's state
        st = ev["after"]
        cur = twin_canon(env["signed"])
        pid = [k for k, b in canon.items() if b == cur]
        if pid != [st["payload"]] and not (canon["p1"] == canon["p2"]):
            fail(i, "payload identity differs from the specification's", observed=pid, spec=st["payload"])
        for k in range(1, nk + 1):
            ent = env["signatures"].get(keys.pub[k])
            if ent is None:
                status = "none"
            else:
                status = "other"
                for pk, b in canon.items():
                    if isinstance(ent, dict) and set(ent) == {"signature"} and oracle_verify(keys.pub[k], b, ent["signature"]):
                        status = pk
            if status != st["sigs"][k - 1]:
                fail(i, "entry state differs from the specification's", key=k, observed=status, spec=st["sigs"][k - 1])
        if (junk_n in env["signatures"]) != st["junk"]:
            fail(i, "junk entry presence differs from the specification's")
        extra = set(env["signatures"]) - {keys.pub[k] for k in range(1, nk + 1)} - {junk_n}
        if extra:
            fail(i, "unexpected entries in the signature map", names=sorted(extra))
        # Boundary: accept exactly for t <= |signers & auth|
        signers = set(st["signers"])
        auths = [list(range(1, nk + 1)), sorted(r.sample(range(1, nk + 1), r.randint(0, nk)))]
        for ai, au in enumerate(auths):
            lst = [keys.pub[k] for k in au]
            if ai == 0:                 # the authorized keys are a SET: listing a key several times changes nothing
                lst = lst + [keys.pub[k] for k in au if r.random() < 0.7] + lst[:1]
            r.shuffle(lst)
            for t in range(1, nk + 2):
                out, exc, _ = lib.call(auth.verify_signable, env, lst, t, gpg=False)
                n_exec += 1
                want = "accept" if t <= len(signers & set(au)) else "SignatureError"
                if out != want:
                    fail(i, "verify_signable boundary", auth=au, threshold=t, observed=out, expected=want, exc=exc)
    try:
        os.unlink(path)
    except OSError:
        pass
    return bad, n_exec


def _work(args):
    lines, seed, workdir, stress = args
    res = {"n": 0, "bad": [], "paths": 0, "samples": []}
    for line in lines:
        hist = decode_case_line(line)
        key = hashlib.sha256(line.encode()).hexdigest()
        bad, n = run_path(hist, seed, key, workdir, stress)
        res["n"] += n
        res["paths"] += 1
        for b in bad:
            b["path"] = hist
            res["bad"].append(b)
        if not res["samples"]:
            res["samples"].append({"path": [{k: v for k, v in e.items() if k != "after"} for e in hist]})
    return res


def replay(run, tlc_result, stress=False, procs=16):
    workdir = os.path.join(run.scratch, "signing")
    os.makedirs(workdir, exist_ok=True)
    lib.cct("signing")
    bad = []
    paths = 0
    with mp.get_context("fork").Pool(procs) as pool:
        it = ((b, run.seed, workdir, stress) for b in ve.batches(tlc_result.case_file, 200))
        for res in pool.imap_unordered(_work, it):
            run.evaluations += res["n"]
            paths += res["paths"]
            bad.extend(res["bad"])
            for s in res["samples"]:
                run.sample(s)
    run.extra["paths_replayed"] = run.extra.get("paths_replayed", 0) + paths
    run.traces_validated += paths - len({json.dumps(b["path"], sort_keys=True) for b in bad})
    run._distinct.update("p%d-%s" % (i, tlc_result.cfg) for i in range(paths))   # TLC emits each distinct path once
    return bad
