"""A GnuPG-backed stand-in for securesystemslib.gpg.functions (which is not installed here): it calls the real
`gpg` binary in a temporary GNUPGHOME and parses the OpenPGP packets itself (RFC 4880 4.2, 5.2.3, 5.5.2,
RFC 4880bis 13.3 for the EdDSA MPIs).  The stand-in is harness code and is validated against `gpg --verify`."""
from __future__ import annotations

import os
import shutil
import subprocess
import tempfile


class GpgUnavailable(Exception):
    pass


def packets(data: bytes):
    """Yield (tag, body) for each OpenPGP packet (old and new format headers)."""
    i = 0
    while i < len(data):
        h = data[i]
        i += 1
        if not h & 0x80:
            raise ValueError("not an OpenPGP packet")
        if h & 0x40:   # new format
            tag = h & 0x3F
            l0 = data[i]
            if l0 < 192:
                ln, i = l0, i + 1
            elif l0 < 224:
                ln, i = ((l0 - 192) << 8) + data[i + 1] + 192, i + 2
            elif l0 == 255:
                ln, i = int.from_bytes(data[i + 1:i + 5], "big"), i + 5
            else:
                raise ValueError("partial body lengths not supported")
        else:
            tag = (h >> 2) & 0x0F
            lt = h & 3
            if lt == 3:
                ln = len(data) - i
            else:
                n = 1 << lt
                ln, i = int.from_bytes(data[i:i + n], "big"), i + n
        yield tag, data[i:i + ln]
        i += ln


def read_mpi(b: bytes, i: int):
    bits = int.from_bytes(b[i:i + 2], "big")
    n = (bits + 7) // 8
    return b[i + 2:i + 2 + n], i + 2 + n


def parse_signature(sigdata: bytes):
    """v4 signature packet -> (other_headers bytes, 64-byte signature, hash algo id, pub algo id)"""
    for tag, body in packets(sigdata):
        if tag != 2:
            continue
        if body[0] != 4:
            raise ValueError("not a v4 signature")
        hashed_len = int.from_bytes(body[4:6], "big")
        other = body[:6 + hashed_len]
        j = 6 + hashed_len
        unhashed_len = int.from_bytes(body[j:j + 2], "big")
        j += 2 + unhashed_len + 2       # unhashed subpackets, left 16 bits of the hash
        r, j = read_mpi(body, j)
        s, j = read_mpi(body, j)
        return other, r.rjust(32, b"\x00") + s.rjust(32, b"\x00"), body[3], body[2]
    raise ValueError("no signature packet")


def parse_pubkey(keydata: bytes):
    """first public-key packet -> 32-byte raw ed25519 public value q"""
    for tag, body in packets(keydata):
        if tag != 6:
            continue
        if body[0] != 4 or body[5] != 22:
            raise ValueError("not a v4 EdDSA key")
        oid_len = body[6]
        j = 7 + oid_len
        q, _ = read_mpi(body, j)
        if q[0] != 0x40 or len(q) != 33:
            raise ValueError("unexpected EdDSA point encoding")
        return q[1:]
    raise ValueError("no public key packet")


class Gpg:
    def __init__(self, parent: str):
        self.bin = shutil.which("gpg")
        if not self.bin:
            raise GpgUnavailable("no gpg binary")
        self.home = tempfile.mkdtemp(prefix="gh", dir=parent)
        os.chmod(self.home, 0o700)
        self.env = {**os.environ, "GNUPGHOME": self.home, "LC_ALL": "C"}
        p = self._run(["--version"])
        if p.returncode != 0:
            raise GpgUnavailable(p.stderr.decode(errors="replace")[:200])

    def _run(self, args, inp=None, timeout=60):
        return subprocess.run([self.bin, "--batch", "--no-tty", "--pinentry-mode", "loopback", "--passphrase", ""] + args,
                              env=self.env, input=inp, capture_output=True, timeout=timeout)

    def close(self):
        subprocess.run(["gpgconf", "--kill", "all"], env=self.env, capture_output=True)
        shutil.rmtree(self.home, ignore_errors=True)

    def import_key(self, path):
        p = self._run(["--import", path])
        if p.returncode != 0:
            raise GpgUnavailable("import failed: " + p.stderr.decode(errors="replace")[:300])

    def generate(self, name):
        p = self._run(["--quick-generate-key", name, "ed25519", "sign", "never"])
        if p.returncode != 0:
            raise GpgUnavailable("key generation failed: " + p.stderr.decode(errors="replace")[:300])

    def fingerprints(self):
        p = self._run(["--with-colons", "--list-secret-keys"])
        return [ln.split(":")[9].lower() for ln in p.stdout.decode().splitlines() if ln.startswith("fpr:")]

    def detach_sign(self, data: bytes, fpr: str) -> bytes:
        p = self._run(["--local-user", fpr, "--digest-algo", "SHA256", "--detach-sign", "-o", "-"], inp=data)
        if p.returncode != 0:
            raise ValueError("gpg could not sign: " + p.stderr.decode(errors="replace")[:300])
        return p.stdout

    def export(self, fpr: str) -> bytes:
        p = self._run(["--export", fpr])
        if p.returncode != 0 or not p.stdout:
            raise KeyError(fpr)
        return p.stdout

    def verify(self, data: bytes, sig: bytes) -> bool:
        d = tempfile.mkdtemp(dir=self.home)
        with open(os.path.join(d, "d"), "wb") as f:
            f.write(data)
        with open(os.path.join(d, "s"), "wb") as f:
            f.write(sig)
        p = self._run(["--verify", os.path.join(d, "s"), os.path.join(d, "d")])
        shutil.rmtree(d, ignore_errors=True)
        return p.returncode == 0

    # ---- the interface root_signing expects from securesystemslib.gpg.functions
    def create_signature(self, data, keyid):
        other, sig, hash_algo, pub_algo = parse_signature(self.detach_sign(bytes(data), keyid))
        if hash_algo != 8 or pub_algo != 22:
            raise ValueError("unexpected algorithms in the GnuPG signature")
        return {"keyid": keyid, "other_headers": other.hex(), "signature": sig.hex()}

    def export_pubkey(self, keyid):
        return {"keyval": {"public": {"q": parse_pubkey(self.export(keyid)).hex()}}}
