"""pytest plugin (no change to the repository): wraps the public verifiers before the test modules import them
and logs one NDJSON event per call at its return (also on the error path): function, JSON-able arguments
(deep-copied BEFORE the call), outcome class, nesting depth.   Enabled with  -p cctverif.pytest_plugin  and
CCTVERIF_TRACE_OUT=<file>."""
from __future__ import annotations

import copy
import functools
import json
import os

_depth = [0]


def _jsonable(x):
    try:
        json.dumps(x)
        return True
    except (TypeError, ValueError):
        return False


def _classify(exc):
    if exc is None:
        return "accept"
    import conda_content_trust.common as c
    import cryptography.exceptions as ce
    for cls, name in ((c.SignatureError, "SignatureError"), (c.UnknownRoleError, "UnknownRoleError"),
                      (c.MetadataVerificationError, "MetadataVerificationError"), (c.CCT_Error, "CCT_Error"),
                      (ce.InvalidSignature, "InvalidSignature"), (TypeError, "TypeError"), (ValueError, "ValueError")):
        if isinstance(exc, cls):
            return name
    return "internal:" + type(exc).__name__


def _wrap(name, fn, out):
    @functools.wraps(fn)
    def wrapper(*a, **kw):
        try:
            args = copy.deepcopy([a, kw])
            ok = _jsonable(args)
        except Exception:  # noqa: BLE001
            args, ok = None, False
        _depth[0] += 1
        exc = None
        try:
            return fn(*a, **kw)
        except BaseException as e:  # noqa: BLE001
            exc = e
            raise
        finally:
            _depth[0] -= 1
            rec = {"api": name, "depth": _depth[0], "outcome": _classify(exc), "args": args[0] if ok else None, "kwargs": args[1] if ok else None,
                   "test": os.environ.get("PYTEST_CURRENT_TEST", "")}
            with open(out, "a") as f:
                f.write(json.dumps(rec) + "\n")
    return wrapper


def pytest_configure(config):
    out = os.environ.get("CCTVERIF_TRACE_OUT")
    if not out:
        return
    import conda_content_trust.authentication as auth
    for name in ("verify_signable", "verify_delegation", "verify_root"):
        setattr(auth, name, _wrap(name, getattr(auth, name), out))
