"""Thin, strict wrapper around TLC.

Every invocation
  * runs in a private metadir under the run's scratch directory,
  * sits under an outer timeout,
  * has its summary line parsed (distinct states / states generated / depth),
  * has every `PrintT("@@" \\o ToJson(...))` line decoded into a Python value,
  * is classified: ok / property violated (with TLC's own message) / machinery failure.

Nothing here decides a property of the code: a TLC "violated" result on a *spec* means the design
itself is wrong (or, for mutant specs, that the invariant bites) and is reported to the caller.
"""
from __future__ import annotations

import json
import os
import re
import shutil
import subprocess
import time
from dataclasses import dataclass, field

SPEC_DIR = os.path.join(os.path.dirname(os.path.dirname(os.path.dirname(os.path.abspath(__file__)))), "spec")
JAR = "/opt/veriftools/tla/tla2tools.jar"
DEPS = "/opt/veriftools/tla/CommunityModules-deps.jar"


class MachineryFailure(Exception):
    """TLC crashed, timed out or printed something we cannot interpret (exit 2, never a VIOLATION)."""


@dataclass
class TLCResult:
    module: str
    cfg: str
    distinct: int = 0
    generated: int = 0
    depth: int = 0
    wall_s: float = 0.0
    violated: str | None = None          # name of the violated invariant/property, if any
    violation_text: str = ""
    cases: list = field(default_factory=list)   # decoded "@@" lines
    coverage: dict = field(default_factory=dict)  # action name -> (distinct, total) when -coverage used
    stdout: str = ""
    cmd: str = ""
    ncases: int = 0
    case_file: str = ""

    @property
    def ok(self) -> bool:
        return self.violated is None


_SUMMARY = re.compile(r"(\d+) states generated, (\d+) distinct states found")
_DEPTH = re.compile(r"The depth of the complete state graph search is (\d+)")
_INV = re.compile(r"Error: Invariant (\S+) is violated")
_PROP = re.compile(r"Error: (?:Action|Temporal) propert(?:y|ies) (\S+)?.*violated")
_COV = re.compile(r"^<(\w+) line \d+, col \d+ to line \d+, col \d+ of module \w+>: (\d+):(\d+)", re.M)


def decode_case_line(line: str):
    """A PrintT of a TLA+ string prints it as a quoted literal with \\" and \\\\ escapes."""
    s = json.loads(line)  # TLA+ string literal escapes are a subset of JSON's
    assert s.startswith("@@")
    return json.loads(s[2:])


def run_tlc(module: str, cfg: str, scratch: str, *, workers: int | str = 16, timeout: int = 900,
            simulate: str | None = None, depth: int | None = None, seed: int | None = None,
            coverage: bool = False, env: dict | None = None, spec_dir: str | None = None,
            expect_cases: bool = False, extra: list[str] | None = None, dfid: bool = False,
            java_opts: list[str] | None = None, raw_cases: bool = False) -> TLCResult:
    spec_dir = spec_dir or SPEC_DIR
    tla = os.path.join(spec_dir, module + ".tla")
    cfgp = cfg if os.path.isabs(cfg) else os.path.join(spec_dir, "mc", cfg)
    if not os.path.exists(tla) or not os.path.exists(cfgp):
        raise MachineryFailure(f"missing spec file {tla} or {cfgp}")
    meta = os.path.join(scratch, "tlc-meta-%d-%d" % (os.getpid(), time.monotonic_ns()))
    os.makedirs(meta, exist_ok=True)
    cmd = ["java", "-XX:+UseParallelGC", "-Xmx12g"] + (java_opts or []) + [
           "-cp", f"{JAR}:{DEPS}", "tlc2.TLC",
           "-workers", str(workers), "-metadir", meta, "-noGenerateSpecTE", "-config", cfgp]
    if simulate:
        cmd += ["-simulate", simulate]
    if depth is not None:
        cmd += ["-depth", str(depth)]
    if seed is not None:
        cmd += ["-seed", str(seed)]
    if coverage:
        cmd += ["-coverage", "1"]
    if extra:
        cmd += extra
    cmd.append(tla)
    e = dict(os.environ)
    e.pop("JAVA_TOOL_OPTIONS", None)
    if env:
        e.update(env)
    t0 = time.time()
    outp = meta + ".out"
    try:
        with open(outp, "w") as fo:
            p = subprocess.run(cmd, cwd=spec_dir, env=e, stdout=fo, stderr=subprocess.STDOUT, timeout=timeout)
    except subprocess.TimeoutExpired as ex:
        shutil.rmtree(meta, ignore_errors=True)
        raise MachineryFailure(f"TLC timed out after {timeout}s: {module} {cfg}") from ex
    shutil.rmtree(meta, ignore_errors=True)
    r = TLCResult(module=module, cfg=os.path.basename(cfgp), wall_s=time.time() - t0, cmd=" ".join(cmd))
    rest = []
    casep = meta + ".cases"
    with open(outp, errors="replace") as fi, open(casep, "w") as fc:
        for line in fi:
            if line.startswith('"@@'):
                r.ncases += 1
                if raw_cases:
                    fc.write(line)
                else:
                    try:
                        r.cases.append(decode_case_line(line))
                    except Exception as ex:  # noqa: BLE001
                        raise MachineryFailure(f"undecodable case line from TLC: {line[:200]}") from ex
            else:
                rest.append(line.rstrip("\n"))
    os.unlink(outp)
    r.case_file = casep
    text = "\n".join(rest)
    r.stdout = text
    m = None
    for m in _SUMMARY.finditer(text):
        pass
    if m:
        r.generated, r.distinct = int(m.group(1)), int(m.group(2))
    d = _DEPTH.search(text)
    if d:
        r.depth = int(d.group(1))
    for cm in _COV.finditer(text):
        r.coverage[cm.group(1)] = (int(cm.group(2)), int(cm.group(3)))
    iv = _INV.search(text)
    if iv:
        r.violated = iv.group(1)
    elif "is violated" in text or "was violated" in text:
        pm = re.search(r"Error: (.*violated.*)", text)
        r.violated = pm.group(1) if pm else "property"
    elif "Error: Deadlock reached" in text:
        r.violated = "Deadlock"
    elif "Assumption" in text and "is false" in text:
        r.violated = "ASSUME"
    if r.violated:
        i = text.find("Error:")
        r.violation_text = text[i:i + 4000]
        return r
    finished_ok = ("Model checking completed. No error has been found." in text) or \
                  (simulate is not None and p.returncode == 0 and "Error:" not in text)
    if not finished_ok:
        raise MachineryFailure(f"TLC did not finish cleanly ({module} {cfg}, rc={p.returncode}):\n" + text[-3000:])
    if expect_cases and not r.ncases:
        raise MachineryFailure(f"TLC emitted no cases ({module} {cfg})")
    return r


def sany(module: str, spec_dir: str | None = None) -> None:
    spec_dir = spec_dir or SPEC_DIR
    p = subprocess.run(["java", "-cp", f"{JAR}:{DEPS}", "tla2sany.SANY", module + ".tla"], cwd=spec_dir,
                       stdout=subprocess.PIPE, stderr=subprocess.STDOUT, text=True, timeout=120)
    if p.returncode != 0 or "Semantic errors" in p.stdout or "Parsing or semantic analysis failed" in p.stdout \
            or "Fatal errors" in p.stdout or "*** Errors" in p.stdout or "Could not find" in p.stdout:
        raise MachineryFailure(f"SANY rejected {module}:\n{p.stdout[-2000:]}")
