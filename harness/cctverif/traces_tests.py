"""The repository's own test-suite as a trace source (code -> spec): run it from a scratch copy of the working tree
with the recording plugin, abstract every recorded verifier call with alpha and let the trace specs judge it.
What is judged is the library's behaviour in each call, not the tests' own assertions (failing tests are traced too)."""
from __future__ import annotations

import json
import os
import shutil
import subprocess
import sys

from . import traces_delegation, traces_root, traces_verify
from .core import REPO
from .tlc import MachineryFailure

HARNESS = os.path.dirname(os.path.dirname(os.path.abspath(__file__)))


def record(run):
    dst = os.path.join(run.scratch, "repo-copy")
    shutil.copytree(REPO, dst, ignore=shutil.ignore_patterns(".git", "__pycache__", "*.pyc", ".pytest_cache"))
    out = os.path.join(run.scratch, "test-trace.ndjson")
    env = {k: v for k, v in os.environ.items() if not k.startswith("PYTHON")}
    env.update({"PYTHONPATH": dst + os.pathsep + HARNESS, "CCTVERIF_TRACE_OUT": out, "PYTHONDONTWRITEBYTECODE": "1", "VERIF_REPO": dst})
    p = subprocess.run([sys.executable, "-m", "pytest", "-q", "-p", "no:cacheprovider", "-p", "cctverif.pytest_plugin", "-x", "--co", "-q", "tests"],
                       cwd=dst, env=env, capture_output=True, text=True, timeout=300)
    p = subprocess.run([sys.executable, "-m", "pytest", "-q", "-p", "no:cacheprovider", "-p", "cctverif.pytest_plugin", "--benchmark-disable", "tests"],
                       cwd=dst, env=env, capture_output=True, text=True, timeout=900)
    events = []
    if os.path.exists(out):
        with open(out) as f:
            events = [json.loads(ln) for ln in f]
    shutil.rmtree(dst, ignore_errors=True)
    if not events:
        raise MachineryFailure("the recording plugin produced no events: " + (p.stdout + p.stderr)[-1500:])
    return events


def judge(run, owner):
    events = record(run)
    by_api = {"verify_signable": [], "verify_delegation": [], "verify_root": []}
    skipped = 0
    for e in events:
        if e["args"] is None:
            skipped += 1
            continue
        a, kw = e["args"], e["kwargs"] or {}
        try:
            if e["api"] == "verify_signable":
                env, auth, thr = (a + [None] * 3)[:3] if len(a) >= 3 else (a[0], kw.get("authorized_pub_keys", a[1] if len(a) > 1 else None), kw.get("threshold", a[2] if len(a) > 2 else None))
                gpg = kw.get("gpg", a[3] if len(a) > 3 else False)
                from .twins import twin_is_hex_key
                if not (isinstance(gpg, bool) and isinstance(thr, int) and not isinstance(thr, bool) and thr >= 1 and isinstance(auth, list)
                        and all(twin_is_hex_key(k) for k in auth) and isinstance(env, dict) and set(env) == {"signatures", "signed"} and isinstance(env["signatures"], dict)):
                    skipped += 1
                    continue
                ev = traces_verify.alpha_call(env, auth, min(thr, 10 ** 6), gpg, e["outcome"])
            elif e["api"] == "verify_delegation":
                name = kw.get("delegation_name", a[0] if a else None)
                un = kw.get("untrusted_delegated_metadata", a[1] if len(a) > 1 else None)
                tr = kw.get("trusted_delegating_metadata", a[2] if len(a) > 2 else None)
                gpg = kw.get("gpg", a[3] if len(a) > 3 else False)
                ev = traces_delegation.alpha_call(name, un, tr, gpg, e["outcome"])
            else:
                ev = traces_root.alpha_call(a[0], a[1], e["outcome"])
        except Exception:  # noqa: BLE001 - arguments outside alpha's domain
            ev = None
        if ev is None:
            skipped += 1
        else:
            by_api[e["api"]].append((ev, e))
    n = 0
    for api, lst in by_api.items():
        if not lst:
            continue
        traces = [{"id": i, "events": [ev]} for i, (ev, e) in enumerate(lst, 1)]
        conc = {i: [{"test": e["test"], "args": e["args"], "kwargs": e["kwargs"], "observed": e["outcome"]}] for i, (ev, e) in enumerate(lst, 1)}
        n += len(traces)
        if api == "verify_signable":
            traces_verify.judge(run, traces, conc, owner, label="repository test-suite call:")
        elif api == "verify_delegation":
            traces_delegation.judge(run, traces, conc, owner, "repository test-suite call")
        else:
            traces_root.judge(run, traces, conc, owner, "repository test-suite call")
    run.evaluations += len(events)
    run.extra["test_suite_calls_recorded"] = len(events)
    run.extra["test_suite_calls_judged"] = n
    run.extra["test_suite_calls_outside_alpha"] = skipped
