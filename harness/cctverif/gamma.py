"""Concretisation gamma: abstract cases (as emitted by TLC) -> real keys, signatures, JSON (DESIGN 4.1).

Signatures are made by signers independent of the library (crypto.fast_sign = pyca/cryptography called
directly; crypto.ed25519_ref_sign = pure-Python RFC 8032 for a rotating subset) over bytes produced by the
twin serializer (twins.twin_canon), never by code from the repository.
"""
from __future__ import annotations

import copy
import random

from . import crypto
from .twins import twin_canon

HEADERS = [
    crypto.DEFAULT_HDR,
    bytes.fromhex("04001608001d162104917adb684e2e9fb5ed4e59909ddd19a1268b62d005025f9dc6a5"),
    b"\x04\x00\x16\x08\x00\x00",
    b"\x01",
    bytes(range(1, 60)),
    b"\xab" * 255,
    b"\xcd" * 256,
    b"\x04" * 300,
]

OTHER_HASHES = [("sha1", 2), ("sha384", 9), ("sha512", 10), ("sha224", 11), ("sha3_256", 12), ("sha3_512", 14), ("md5", 1)]

PAYLOADS = [
    lambda r: {"foo": "bar", "n": r.randint(0, 10 ** 6)},
    lambda r: {"a": [1, 2, {"b": None, "c": True}], "d": 1.5, "e": "", "k": r.randint(0, 99)},
    lambda r: {"é": " ", "x": "\U0001f600", "s": "\ud800", "n": r.randint(0, 99)},
    lambda r: [r.randint(0, 99), "x", {"y": []}],
    lambda r: "just a string %d" % r.randint(0, 99),
    lambda r: r.randint(-10 ** 30, 10 ** 30),
    lambda r: {"info": {"name": "pkg", "version": "1.%d" % r.randint(0, 99), "depends": ["a >=1", "b"],
                        "size": 12345, "md5": "0" * 32}},
    lambda r: {"deep": {"deeper": {"deepest": {"x": [[[[r.randint(0, 9)]]]]}}}},
    lambda r: None if r.random() < 0.3 else {"z": None, "r": r.randint(0, 9)},
    lambda r: r.random() < 0.5,                                                    # a bare boolean
    lambda r: r.choice([0.5, -1.25, 1e300, 3.0]) + r.randint(0, 9),                # a bare float
    lambda r: "",
    lambda r: [],
    lambda r: {},
    lambda r: {"signatures": {}, "signed": {"inner": r.randint(0, 99)}},                                  # a payload that looks like an envelope
    lambda r: {"signatures": {"ab" * 32: {"signature": "cd" * 64}}, "signed": [r.randint(0, 99)]},
    # ordinary content that happens to carry a member called "type" (conda app records do): it is not delegating metadata
    lambda r: {"type": r.choice(["app", "pkg_mgr", "root", "key_mgr", "", 5, None, ["root"]]), "name": "navigator-%d" % r.randint(0, 99), "version": "1.0"},
    lambda r: {"type": r.choice(["root", "key_mgr"]), "delegations": {}, "version": r.randint(1, 9), "note": "looks a bit like metadata, is not"},
]

ALT_SPELLINGS = [
    lambda h: h.upper(),
    lambda h: h[:10] + h[10:].upper(),
    lambda h: " " + h,
    lambda h: h + " ",
    lambda h: h + "\n",
    lambda h: "0x" + h,
    lambda h: h[:32] + " " + h[32:],
    lambda h: h.translate({ord("0") + i: 0xFF10 + i for i in range(10)}),   # full-width digits
    lambda h: h.translate({ord("0") + i: 0x0660 + i for i in range(10)}),   # Arabic-Indic digits
    lambda h: h + h,
    lambda h: "00" + h,
    lambda h: h[:-2] if h.endswith("00") else h + "00",
]
JUNK_NAMES_ASCII = ["foo", "", "g" * 64, "a" * 63, "a" * 65, "signature", "0" * 62 + "zz", "key one", "\x00", "\x7f" * 64]
JUNK_NAMES_NONASCII = ["ключ", "é" * 64, "٠" * 64, "café"]
JUNK_NAMES_SURROGATE = ["\ud800", "ab\udfffcd"]
JUNK_VALUES = [None, 5, "quux", [], {}, {"signature": 5}, {"signature": "zz"}, True, 1.5,
               {"other_headers": "", "signature": ""}, "éè", [{"signature": "0" * 128}]]
JUNK_VALUES_NONASCII = ["éè", {"signature": "٠" * 128}, {"ü": 1}]
JUNK_VALUES_SURROGATE = ["\udc80", {"signature": "\ud800"}]


class Keys:
    def __init__(self, nk: int, run_seed: int = 0, offset: int = 0, related: bool = False):
        self.seeds = {k: crypto.seed_for(k + offset, run_seed) for k in range(1, nk + 1)}
        if related and nk >= 2:
            # keys 1 and 2 share the last 32 bits of their public value, keys 3 and 4 (if there) the first 32 bits
            self.seeds[1], self.seeds[2] = crypto.related_seeds("suffix")
            if nk >= 4:
                self.seeds[3], self.seeds[4] = crypto.related_seeds("prefix")
        if nk == 1:
            self.seeds[0] = crypto.seed_for(offset + 999983, run_seed)      # a one-key world still needs "another key" for copied signatures
        self.pub = {k: crypto.fast_public(s).hex() for k, s in self.seeds.items()}
        self.nk = nk
        self._cache = {}

    def other(self, k):
        return 0 if self.nk == 1 else (k % self.nk) + 1

    def sign(self, k, data: bytes, ref=False) -> bytes:
        key = (k, data)
        if key not in self._cache:
            self._cache[key] = crypto.ed25519_ref_sign(self.seeds[k], data) if ref else crypto.fast_sign(self.seeds[k], data)
        return self._cache[key]


def flip_bit(b: bytes, r: random.Random) -> bytes:
    i = r.randrange(len(b) * 8)
    ba = bytearray(b)
    ba[i // 8] ^= 1 << (i % 8)
    return bytes(ba)


def make_payloads(r: random.Random):
    """Two JSON values P, Q with different canonical bytes (Q is 'related': a small edit of P)."""
    P = r.choice(PAYLOADS)(r)
    mode = r.randrange(4)
    if mode == 0 or not isinstance(P, (dict, list)) or not P:
        Q = r.choice(PAYLOADS)(r)
    elif isinstance(P, dict):
        Q = copy.deepcopy(P)
        if mode == 1:
            Q["_extra"] = 0
        elif mode == 2 and Q:
            del Q[sorted(Q)[0]]
        else:
            k = sorted(Q)[0]
            Q[k] = [Q[k]]
    else:
        Q = list(P) + [0] if mode == 1 else list(reversed(P)) + [1]
    if twin_canon(Q) == twin_canon(P):
        Q = {"__other__": [P]}
    return P, Q


def entry_value(v, k: int, keys: Keys, Pb: bytes, Qb: bytes, r: random.Random, surrogates=True, nonascii=True):
    """v = [shape, by, over, fr, ok] as emitted by CaseJson; k = key the name spells (1 for alt/junk names)."""
    shape, by, over, fr, ok = v
    if shape == "absent":
        return None
    if by == "none":
        pool = list(JUNK_VALUES)
        if nonascii:
            pool += JUNK_VALUES_NONASCII
        if surrogates:
            pool += JUNK_VALUES_SURROGATE
        return copy.deepcopy(r.choice(pool))
    signer = k if by == "self" else keys.other(k)
    data = Pb if over == "P" else Qb
    hdr = r.choice(HEADERS)
    use_ref = r.random() < 0.02
    if fr == "raw":
        sig = keys.sign(signer, data, ref=use_ref)
    else:
        sig = keys.sign(signer, crypto.gpg_digest(data, hdr), ref=use_ref)
    hdr_out = hdr
    if not ok:
        choice = r.randrange(5) if (fr == "gpg" and shape != "raw") else 0
        if choice == 4:
            # a genuine ed25519 signature by the same key over the digest of ANOTHER hash algorithm, with a header that names
            # that algorithm in its hash-algorithm octet: only SHA-256 digests count
            algo, octet = r.choice(OTHER_HASHES)
            hdr_out = r.choice(HEADERS[:3])
            hdr_out = hdr_out[:3] + bytes([octet]) + hdr_out[4:]
            sig = keys.sign(signer, crypto.gpg_digest(data, hdr_out, "rfc", algo))
        elif choice == 0:
            sig = flip_bit(sig, r)
        elif choice == 1:
            hdr_out = flip_bit(hdr, r)
        elif choice == 2:
            hdr_out = hdr + b"\x00"
        else:
            hdr_out = hdr[:-1] if len(hdr) > 1 else hdr + b"\x01"
    sh = sig.hex()
    if shape == "raw":
        return {"signature": sh}
    if shape == "gpg":
        return {"other_headers": hdr_out.hex(), "signature": sh}
    if shape == "gpgfp":
        return {"other_headers": hdr_out.hex(), "signature": sh, "see_also": "f075dd2f6f4cb3bd76134bbb81b6ca16ef9cd589"}
    assert shape == "bad"
    hh = hdr_out.hex()
    bads = [
        {"signature": sh.upper()},
        {"signature": sh, "foo": 1},
        {"signature": sh + "00"},
        {"signature": sh[:-2]},
        sh,
        [sh],
        {"sig": sh},
        {"signature": sh, "other_headers": "xyz!"},
        {"signature": sh, "other_headers": hh, "see_also": "short"},
        {"signature": sh, "other_headers": hh, "see_also": "F075DD2F6F4CB3BD76134BBB81B6CA16EF9CD589"},
        {"signature": sh, "other_headers": hh, "extra": ""},
        {"signature": " " + sh[1:], "other_headers": hh},
        {"signature": sh, "other_headers": hh.upper() if hh.upper() != hh else "AB"},
        {"signature": sh, "other_headers": hh + "0"},
        {"signature": sh, "other_headers": ""},
        {"signature": sh, "see_also": "f075dd2f6f4cb3bd76134bbb81b6ca16ef9cd589"},
        {"signature": [sh]},
        {"signature": None},
    ]
    return copy.deepcopy(r.choice(bads))


def alt_name(keys: Keys, k: int, r: random.Random, nonascii=True) -> str:
    h = keys.pub[k]
    for _ in range(20):
        f = r.choice(ALT_SPELLINGS)
        s = f(h)
        if s != h and (nonascii or s.isascii()):
            return s
    return " " + h


def junk_name(r: random.Random, nonascii=True, surrogates=True) -> str:
    pool = list(JUNK_NAMES_ASCII)
    if nonascii:
        pool += JUNK_NAMES_NONASCII
    if surrogates:
        pool += JUNK_NAMES_SURROGATE
    return r.choice(pool)


def build_sigmap(case, keys: Keys, Pb, Qb, r: random.Random, nonascii=True, surrogates=True, names_out=None):
    """Concrete signature map for an abstract case {e: {k: v}, alt: v, junk: v}; insertion order shuffled."""
    items = []
    for ks, v in case["e"].items() if isinstance(case["e"], dict) else enumerate(case["e"], 1):
        k = int(ks)
        val = entry_value(v, k, keys, Pb, Qb, r, surrogates, nonascii)
        if v[0] != "absent":
            items.append((keys.pub[k], val))
    if case.get("alt") and case["alt"][0] != "absent":
        an = alt_name(keys, 1, r, nonascii)
        if names_out is not None:
            names_out["alt"] = an
        items.append((an, entry_value(case["alt"], 1, keys, Pb, Qb, r, surrogates, nonascii)))
    if case.get("junk") and case["junk"][0] != "absent":
        items.append((junk_name(r, nonascii, surrogates), entry_value(case["junk"], 1, keys, Pb, Qb, r, surrogates, nonascii)))
    r.shuffle(items)
    return dict(items)


def auth_list(auth, keys: Keys, r: random.Random, dups=False):
    lst = [keys.pub[int(k)] for k in auth]
    r.shuffle(lst)
    if dups and lst and r.random() < 0.3:
        lst.append(r.choice(lst))
    return lst


def prime_related(case, keys: Keys, sigs, Q):
    """Verify, just before the call under test, the 'related input': the SAME keys and the SAME signature entries over
    the OTHER payload Q (for which those entries are genuinely valid).  Verdicts must not depend on earlier calls, so
    this never changes what the specification allows; it exposes verdict caches keyed by (key, signature)."""
    from . import lib
    auth = lib.cct("authentication")
    entries = list(case["e"].items() if isinstance(case["e"], dict) else enumerate(case["e"], 1))
    for fr in ("raw", "gpg"):
        sub = {}
        for ks, v in entries:
            k = int(ks)
            if v[0] in ("raw", "gpg", "gpgfp") and v[1] == "self" and v[2] == "Q" and v[3] == fr and v[4] and keys.pub[k] in sigs:
                if fr == "gpg" and v[0] == "raw":
                    continue
                sub[keys.pub[k]] = sigs[keys.pub[k]]
        if sub:
            lib.call(auth.verify_signable, {"signatures": dict(sub), "signed": Q}, list(sub), 1, gpg=(fr == "gpg"))


def share_equal_parts(dst, src, r: random.Random = None, p=1.0):
    """Aliasing: every list / dict inside dst that is EQUAL (same canonical bytes) to one inside src is replaced by that very object, as
    happens when one document is built from another by copy-and-edit.  Values do not change, so no verdict may.  Returns dst (or src itself
    when the whole of dst equals a part of src)."""
    pool = {}

    def collect(x):
        if isinstance(x, (dict, list)):
            try:
                pool.setdefault((type(x).__name__, twin_canon(x)), x)
            except (TypeError, ValueError, RecursionError):
                pass
            for c in (x.values() if isinstance(x, dict) else x):
                collect(c)
    collect(src)

    def key(x):
        try:
            return (type(x).__name__, twin_canon(x))
        except (TypeError, ValueError, RecursionError):
            return None

    def walk(x):
        if not isinstance(x, (dict, list)):
            return x
        k = key(x)
        if k in pool and (r is None or r.random() < p):
            return pool[k]
        if isinstance(x, dict):
            for kk in list(x):
                x[kk] = walk(x[kk])
        else:
            for i in range(len(x)):
                x[i] = walk(x[i])
        return x
    return walk(dst)
