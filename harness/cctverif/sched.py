"""Deterministic two-thread scheduler at Python line granularity (C12).

Each worker thread runs under a tracer that, on every `line` event in library code, waits until the central
schedule hands it the baton.  A schedule is a list of (thread index, number of line events); when it is
exhausted the remaining threads run to completion one after the other.  No wall clock is involved: the same
schedule always produces the same interleaving."""
from __future__ import annotations

import sys
import threading

from .core import REPO
import os

PKG_DIR = os.path.join(REPO, "conda_content_trust") + os.sep


class Scheduler:
    def __init__(self, schedule):
        self.schedule = list(schedule)      # [(tid, n), ...]
        self.cv = threading.Condition()
        self.turn = None                    # thread allowed to run
        self.budget = 0
        self.done = set()
        self.counts = {}
        self.nthreads = 0
        self.error = None

    def _advance(self):
        """Pick the next segment (called with cv held)."""
        while self.schedule:
            tid, n = self.schedule.pop(0)
            if tid in self.done or n <= 0:
                continue
            self.turn, self.budget = tid, n
            self.cv.notify_all()
            return
        # schedule exhausted: let any unfinished thread run to completion
        rest = [t for t in range(self.nthreads) if t not in self.done]
        self.turn, self.budget = (rest[0], 10 ** 9) if rest else (None, 0)
        self.cv.notify_all()

    def tracer_for(self, tid):
        def local(frame, event, arg):
            if event == "line":
                with self.cv:
                    while self.turn != tid:
                        if not self.cv.wait(timeout=30):
                            self.error = "scheduler stalled"
                            raise RuntimeError("scheduler stalled")
                    self.counts[tid] = self.counts.get(tid, 0) + 1
                    self.budget -= 1
                    if self.budget < 0:
                        self._advance()
                        while self.turn != tid:
                            if not self.cv.wait(timeout=30):
                                self.error = "scheduler stalled"
                                raise RuntimeError("scheduler stalled")
            return local

        def glob(frame, event, arg):
            if frame.f_code.co_filename.startswith(PKG_DIR):
                return local
            return None
        return glob

    def run(self, fns):
        """fns: list of callables; returns list of (result or exception) per thread and the line counts."""
        self.nthreads = len(fns)
        out = [None] * len(fns)

        def body(i):
            sys.settrace(self.tracer_for(i))
            try:
                out[i] = ("ok", fns[i]())
            except BaseException as e:  # noqa: BLE001
                out[i] = ("exc", e)
            finally:
                sys.settrace(None)
                with self.cv:
                    self.done.add(i)
                    if self.turn == i:
                        self._advance()

        threads = [threading.Thread(target=body, args=(i,)) for i in range(len(fns))]
        with self.cv:
            self._advance()
        for t in threads:
            t.start()
        for t in threads:
            t.join(60)
        if any(t.is_alive() for t in threads) or self.error:
            raise RuntimeError("scheduler did not terminate: " + str(self.error))
        return out, dict(self.counts)
