"""Driver for InPlace.tla: TLC enumerates (procedure, input class, document shape); each case is executed
fault-free (C11 result abstraction, C18 malformed inputs) and, for a representative subset of shapes, with an
injected exception at EVERY line event of the fault-free run (C18).  All observations are deduplicated into
abstract events and judged by Trace_InPlace.tla."""
from __future__ import annotations

import copy
import hashlib
import json
import multiprocessing as mp
import os
import random

from . import crypto, faults, gamma, lib, metadata
from .tlc import MachineryFailure
from .traces_verify import oracle_verify
from .twins import twin_canon


def norm_doc(d):
    """TLC's DocJson -> shape used by faults.build_repodata."""
    cd = None if d["cd"][0] == "nosection" else sorted(d["cd"][1])
    meta = d["meta"]
    if isinstance(meta, list):
        raise MachineryFailure("meta should be a JSON object")
    return {"pk": sorted(d["pk"]), "cd": cd, "meta": meta, "pre": d["pre"], "extra": d["extra"]}


def shape_key(case):
    d = case.get("doc")
    if not d:
        return (case["proc"], case["input"])
    return (case["proc"], case["input"], len(d["pk"] or []), None if d["cd"] is None else len(d["cd"]), d["pre"], d["extra"])


def result_alpha(case, ctx, before, after, workdir, seed):
    """Abstraction of a completed repodata signing + the concrete C11 sub-checks (returned as `c11` problems)."""
    problems = []
    doc, metas, pub = ctx["doc"], ctx["metas"], ctx["pub"]
    try:
        new = json.loads(after)
    except Exception as e:  # noqa: BLE001
        return {"names": [], "metas": []}, [f"output is not JSON: {e}"]
    if twin_canon(new) != after:
        problems.append("output file is not in canonical form")
    rest_old = {k: v for k, v in doc.items() if k != "signatures"}
    rest_new = {k: v for k, v in new.items() if k != "signatures"}
    if twin_canon(rest_old) != twin_canon(rest_new):
        problems.append("fields other than 'signatures' changed")
    names, ms = [], []
    sigs = new.get("signatures")
    allnames = list(sigs) if isinstance(sigs, dict) else []
    for sec in ("packages", "packages.conda"):
        if isinstance(new.get(sec), dict):
            allnames += list(new[sec])
    inv = {cn: faults.abstract_name(cn) for cn in allnames}
    canon = {m: twin_canon(v) for m, v in metas.items()}
    if not isinstance(sigs, dict):
        problems.append("signatures section is not an object")
        sigs = {}
    for cname, ent in sigs.items():
        a = inv.get(cname, "ghost")
        which = "other"
        if isinstance(ent, dict) and set(ent) == {pub} and isinstance(ent[pub], dict) and set(ent[pub]) == {"signature"}:
            for m, b in canon.items():
                if oracle_verify(pub, b, ent[pub]["signature"]):
                    which = m
            if which != "other":
                want = crypto.fast_sign(ctx["key_seed"], canon[which]).hex()
                if ent[pub]["signature"] != want:
                    problems.append("signature differs from the RFC 8032 deterministic signature")
        else:
            problems.append(f"entry for {cname} is not exactly one well-formed raw signature under the signer's public key")
        if a == "ghost":
            names.append("ghost")
            ms.append("other")
        else:
            names.append(a)
            ms.append(which)
    # client side: verify each artifact's own metadata through a pkg_mgr delegation; never another artifact's
    auth, signing = lib.cct("authentication"), lib.cct("signing")
    r = random.Random(seed)
    km = {"signatures": {}, "signed": metadata.delegating_doc("key_mgr", 1, {"pkg_mgr": metadata.rule([pub], 1)}, r)}
    allarts = {**new.get("packages", {}), **new.get("packages.conda", {})} if isinstance(new.get("packages"), dict) else {}
    for cname, md in allarts.items():
        if cname not in sigs:
            continue
        env = signing.wrap_as_signable(md)
        env["signatures"] = copy.deepcopy(sigs[cname]) if isinstance(sigs[cname], dict) else {}
        out, exc, _ = lib.call(auth.verify_delegation, "pkg_mgr", env, km)
        if out != "accept":
            problems.append(f"client-side verification of {inv.get(cname, cname)} through pkg_mgr failed: {out}")
        for other, omd in allarts.items():
            if twin_canon(omd) != twin_canon(md):
                env2 = signing.wrap_as_signable(omd)
                env2["signatures"] = copy.deepcopy(sigs[cname]) if isinstance(sigs[cname], dict) else {}
                out2, _, _ = lib.call(auth.verify_delegation, "pkg_mgr", env2, km)
                if out2 == "accept":
                    problems.append("a signature verifies against another artifact's different metadata")
    return {"names": names, "metas": ms}, problems


def _event_key(ev):
    return json.dumps({k: ev[k] for k in ("proc", "input", "doc", "touched", "changed", "injected", "completed", "site", "result")
                       if k in ev}, sort_keys=True)


def _work(args):
    cases, seed, workdir, do_faults_keys = args
    faults.install_audit()
    out = {"events": {}, "n_exec": 0, "c11": [], "samples": [], "fault_sites": 0, "site_classes": {}}

    def add(ev, concrete):
        k = _event_key(ev)
        if k not in out["events"]:
            out["events"][k] = [ev, 0, concrete]
        out["events"][k][1] += 1

    for case in cases:
        ev, tr, before, after, ctx = faults.run_case(case, workdir, seed)
        out["n_exec"] += 1
        if ev["completed"] and case["input"] == "ok" and case["proc"] in ("repodata", "cli_sign"):
            res, problems = result_alpha(case, ctx, before, after, workdir, seed)
            ev["result"] = res
            # idempotence: signing again changes nothing
            ev2, _, b2, a2, _ = None, None, None, None, None
            fn, target, ctx2 = faults.setup_case(case, workdir, seed)
            try:
                fn()
                fn()
                with open(target, "rb") as f:
                    twice = f.read()
                if twice != after:
                    problems.append("signing again changed the file")
            except Exception as e:  # noqa: BLE001
                problems.append(f"second signing raised {type(e).__name__}")
            out["n_exec"] += 2
            for p in problems:
                out["c11"].append({"case": case, "problem": p})
        elif ev["completed"] and case["input"] == "ok":
            ev["result"] = {"names": [], "metas": []}
            if case["proc"] in ("gpg", "cli_gpg"):
                try:
                    new = json.loads(after)
                    ent = new["signatures"].get(ctx["pub"])
                    okc = twin_canon(new) == after and twin_canon(new["signed"]) == twin_canon(ctx["doc"]["signed"]) and ent is not None \
                        and oracle_verify(ctx["pub"], crypto.gpg_digest(twin_canon(new["signed"]), bytes.fromhex(ent["other_headers"])), ent["signature"])
                    if not okc:
                        out["c11"].append({"case": case, "problem": "gpg path output is not the canonical, correctly signed envelope", "gpg": True})
                    old_sigs = ctx["doc"].get("signatures", {}) if isinstance(ctx["doc"], dict) else {}
                    if any(k not in new["signatures"] or twin_canon(new["signatures"][k]) != twin_canon(v) for k, v in old_sigs.items() if k != ctx["pub"]):
                        out["c11"].append({"case": case, "problem": "adding a signature through the gpg path altered or dropped signatures already present", "gpg": True})
                except Exception as e:  # noqa: BLE001
                    out["c11"].append({"case": case, "problem": f"gpg path output unreadable: {e}", "gpg": True})
        else:
            ev["result"] = {"names": [], "metas": []}
        add(ev, {"case": case, "fault_at": None, "outcome": ev["outcome"]})
        if not out["samples"]:
            out["samples"].append({"case": case, "event": {k: v for k, v in ev.items() if k != "doc"}})
        # fault injection at every line event for representative shapes
        if case["input"] == "ok" and shape_key(case) in do_faults_keys and ev["completed"]:
            n_sites = tr.n
            kinds = sorted(faults.FAULT_KINDS)
            plan = [(n, "plain") for n in range(1, n_sites + 1)] + [(n, kinds[(n // 3) % len(kinds)]) for n in range(1, n_sites + 1, 3)]
            for n, kind in plan:
                fev, ftr, fb, fa, _ = faults.run_case(case, workdir, seed, fault_at=n, kind=kind)
                fev["fault_kind"] = kind
                out["n_exec"] += 1
                out["fault_sites"] += 1
                fev["result"] = {"names": [], "metas": []}
                out["site_classes"][fev["site"]] = out["site_classes"].get(fev["site"], 0) + 1
                if not fev["injected"]:
                    # the run did not reach event n or swallowed the fault: record as it is
                    fev["site"] = "none"
                add(fev, {"case": case, "fault_at": n, "fault_kind": kind, "outcome": fev["outcome"]})
    out["events"] = list(out["events"].values())
    return out


def run(run_, tlc_result, fault_shapes_per_proc, procs=16):
    """Execute all cases; returns (events with multiplicity+concrete, c11 problems)."""
    workdir_root = os.path.join(run_.scratch, "inplace")
    os.makedirs(workdir_root, exist_ok=True)
    cases = []
    for c in tlc_result.cases:
        c = dict(c)
        c["doc"] = norm_doc(c["doc"])
        cases.append(c)
    # choose the shapes that get a fault at every line event: one case per shape key
    r = random.Random(run_.seed)
    by_shape = {}
    for c in cases:
        if c["input"] == "ok":
            by_shape.setdefault(shape_key(c), []).append(c)
    keys_by_proc = {}
    for k in by_shape:
        keys_by_proc.setdefault(k[0], []).append(k)
    chosen = set()
    for p, ks in keys_by_proc.items():
        ks = sorted(ks, key=str)
        r.shuffle(ks)
        chosen.update(ks[: fault_shapes_per_proc])
    fault_cases = {id(r.choice(v)) for k, v in by_shape.items() if k in chosen}
    # mark: only the chosen representative of each shape is fault-enumerated
    jobs = []
    r.shuffle(cases)
    chunk = max(1, len(cases) // (procs * 8))
    for i in range(0, len(cases), chunk):
        part = cases[i:i + chunk]
        keys = {shape_key(c) for c in part if id(c) in fault_cases}
        jobs.append((part, run_.seed, workdir_root, keys))
    lib.cct("signing"), lib.cct("cli"), lib.cct("root_signing")
    events, c11 = {}, []
    with mp.get_context("fork").Pool(procs, initializer=_init_worker, initargs=(workdir_root,)) as pool:
        for res in pool.imap_unordered(_work2, jobs):
            run_.evaluations += res["n_exec"]
            run_.extra["fault_sites"] = run_.extra.get("fault_sites", 0) + res["fault_sites"]
            sc = run_.extra.setdefault("fault_site_classes", {})
            for k, v in res["site_classes"].items():
                sc[k] = sc.get(k, 0) + v
            c11.extend(res["c11"])
            for ev, n, conc in res["events"]:
                k = _event_key(ev)
                if k not in events:
                    events[k] = [ev, 0, conc]
                events[k][1] += n
            for s in res["samples"]:
                run_.sample(s)
    return list(events.values()), c11


def _large_fault(args):
    case, seed, workdir, n = args
    os.makedirs(workdir, exist_ok=True)
    faults.install_audit()
    kinds = sorted(faults.FAULT_KINDS)
    fev, ftr, fb, fa, _ = faults.run_case(case, workdir, seed, fault_at=n, kind=kinds[n % len(kinds)])
    return n, {k: v for k, v in fev.items() if k not in ("doc", "audit")}


def large_document_events(run_, n_art, points, procs=16, procs_list=("repodata", "cli_sign")):
    """Scale: repodata with thousands of artifacts.  The fault-free run, late-discovered malformed input, and an exception injected at
    sampled line events over the whole run (dense near the end).  Events are reported over a small abstract document: what is judged
    here is only whether the target was touched / changed by a run that did not complete."""
    root = os.path.join(run_.scratch, "inplace-large")
    os.makedirs(root, exist_ok=True)
    small = {"pk": ["a1", "a2", "a3"], "cd": ["c1"], "meta": {a: "m1" for a in faults.ART_NAMES + faults.CONDA_NAMES}, "pre": "absent", "extra": False}
    events = []
    lib.cct("signing"), lib.cct("cli")
    for proc in procs_list:
        pk = ["a%d" % i for i in range(1, n_art + 1)]
        cd = ["c%d" % i for i in range(1, 41)]
        doc = {"pk": pk, "cd": cd, "meta": {a: "m%d" % (i % 5) for i, a in enumerate(pk + cd)}, "pre": "absent", "extra": False, "tiny": True}
        for inp in ("ok", "conda_not_object"):
            case = {"proc": proc, "input": inp, "doc": doc}
            ev, tr, before, after, ctx = faults.run_case(case, root, run_.seed, record=False)
            run_.evaluations += 1
            ev["result"] = {"names": small["pk"] + small["cd"], "metas": ["m1"] * 4} if ev["completed"] else {"names": [], "metas": []}
            ev["doc"] = small
            ev.pop("audit", None)
            events.append([ev, 1, {"case": {"proc": proc, "input": inp, "artifacts": n_art + 40}, "fault_at": None, "outcome": ev["outcome"]}])
            if inp != "ok" or not ev["completed"]:
                continue
            total = tr.n
            pts = sorted({max(1, total * i // points) for i in range(1, points + 1)} | set(range(max(1, total - 12), total + 1)))
            jobs = [(case, run_.seed, os.path.join(root, "w%d" % (i % procs)), n) for i, n in enumerate(pts)]
            # one worker per directory at a time: chunk the jobs by directory
            by_dir = {}
            for j in jobs:
                by_dir.setdefault(j[2], []).append(j)
            with mp.get_context("fork").Pool(min(procs, len(by_dir))) as pool:
                for res in pool.imap_unordered(_large_fault_batch, list(by_dir.values())):
                    for n, fev in res:
                        run_.evaluations += 1
                        run_.extra["fault_sites"] = run_.extra.get("fault_sites", 0) + 1
                        fev["result"] = {"names": [], "metas": []}
                        fev["doc"] = small
                        if not fev["injected"]:
                            fev["site"] = "none"
                        events.append([fev, 1, {"case": {"proc": proc, "input": inp, "artifacts": n_art + 40}, "fault_at": n, "of_line_events": total,
                                                "outcome": fev["outcome"]}])
    run_.extra["large_document_artifacts"] = n_art + 40
    return events


def _large_fault_batch(jobs):
    return [_large_fault(j) for j in jobs]


def _init_worker(root):
    d = os.path.join(root, "w%d" % os.getpid())
    os.makedirs(d, exist_ok=True)
    global _WORKDIR
    _WORKDIR = d


_WORKDIR = None


def _work2(args):
    cases, seed, root, keys = args
    return _work((cases, seed, _WORKDIR or root, keys))


def judge(run_, events, cfg="Trace_InPlace.cfg", names=None):
    """Hand the deduplicated events to Trace_InPlace.tla; returns list of rejected (event, count, concrete)."""
    evs = []
    for ev, n, conc in events:
        e = {k: ev[k] for k in ("proc", "input", "touched", "changed", "injected", "completed", "site", "result")}
        d = ev["doc"] or {"pk": [], "cd": [], "meta": {}, "pre": "absent", "extra": False}
        meta = {a: d["meta"].get(a, "m1") for a in (names or faults.ART_NAMES + faults.CONDA_NAMES)}
        e["doc"] = {"pk": d["pk"], "cd": ["nosection"] if d["cd"] is None else ["section", d["cd"]], "meta": meta,
                    "pre": d["pre"], "extra": d["extra"]}
        if e["site"] is None:
            e["site"] = "none"
        evs.append(e)
    path = os.path.join(run_.scratch, "inplace-events-%d.json" % len(evs))
    with open(path, "w") as f:
        json.dump(evs, f)
    r = run_.tlc("Trace_InPlace", cfg, env={"TRACE_FILE": path}, workers=8, timeout=1800)
    ok = {c["eid"] for c in r.cases}
    rejected = []
    for i, (ev, n, conc) in enumerate(events, 1):
        if i in ok:
            run_.traces_validated += 1
        else:
            rejected.append((ev, n, conc))
    run_.extra["distinct_abstract_events"] = len(events)
    return rejected
