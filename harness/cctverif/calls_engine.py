"""C12: behaviours of Calls.tla replayed over a real shared pool (sequentially and with overlapping calls run as
real threads under the deterministic line scheduler), deep snapshots of every argument around every call,
all schedules with <= 2 pre-emptions for fixed call pairs, and fresh-interpreter configurations."""
from __future__ import annotations

import copy
import json
import random
import sys

from . import crypto, gamma, lib, metadata, sched
from .twins import twin_canon


def snapshot(x):
    """Canonical bytes + identity graph (id of every container, in traversal order)."""
    ids = []

    def walk(v):
        if isinstance(v, dict):
            ids.append(("d", id(v), tuple(v)))
            for k in v:
                walk(v[k])
        elif isinstance(v, list):
            ids.append(("l", id(v), len(v)))
            for y in v:
                walk(y)
    walk(x)
    return twin_canon(x), tuple(ids)


class Pool:
    """Concrete counterpart of Calls.tla's heap and envelopes."""

    def __init__(self, seed, salt):
        self.keys = gamma.Keys(2, seed, offset=1000)
        self.pubs = [self.keys.pub[1], self.keys.pub[2]]
        self.salt = salt
        p1 = self.payload(1, 1)
        self.E = {"E1": {"signatures": {}, "signed": p1}, "E2": {"signatures": {}, "signed": self.payload(1, 1, tag="second")}}
        for k in (1, 2):
            self.sign("E1", k)
        self.signing = lib.cct("signing")
        self.common = lib.cct("common")
        self.auth = lib.cct("authentication")

    def payload(self, v, cv, tag="first"):
        return {"a": v, "c": {"b": cv, "deep": [self.salt]}, "tag": tag}

    def sign(self, e, k, via_library=False):
        env = self.E[e]
        if via_library:
            self.signing.sign_signable(env, self.common.PrivateKey.from_bytes(self.keys.seeds[k]))
        else:
            env["signatures"][self.keys.pub[k]] = {"signature": self.keys.sign(k, twin_canon(env["signed"])).hex()}

    def mutate(self, addr, v):
        # addresses 1/2: the object E1's payload is built on; 3/4: E2's original payload object
        obj = self.orig1 if addr in (1, 2) else self.orig2
        if addr in (1, 3):
            obj["a"] = v
        else:
            obj["c"]["b"] = v

    def bind(self):
        self.orig1 = self.E["E1"]["signed"]
        self.orig2 = self.E["E2"]["signed"]

    def wrap(self):
        self.E["E2"] = self.signing.wrap_as_signable(self.orig1)

    def call(self, e, thr):
        return lambda: self.auth.verify_signable(self.E[e], list(self.pubs), thr)


def outcome_of(res):
    kind, v = res
    if kind == "ok":
        return "accept"
    return lib.family(lib.classify(v))


def replay_behaviour(hist, seed, idx, threaded=True):
    """Returns (list of discrepancies, number of executions)."""
    pool = Pool(seed, f"b{idx}")
    pool.bind()
    bad, n_exec = [], 0
    # pair begin/end per thread
    open_call = {}
    calls = []          # (begin index, end index, t, e, thr, expected)
    for i, ev in enumerate(hist):
        if ev["a"] == "begin":
            open_call[ev["t"]] = (i, ev)
        elif ev["a"] == "end":
            bi, bev = open_call.pop(ev["t"])
            calls.append({"begin": bi, "end": i, "t": ev["t"], "e": bev["e"], "thr": bev["thr"], "expected": ev["expected"],
                          "steps": [j for j in range(bi, i) if hist[j]["a"] == "step" and hist[j]["t"] == ev["t"]]})
    by_begin = {c["begin"]: c for c in calls}
    old_stdout = sys.stdout
    sys.stdout = lib.Sink()
    try:
        i = 0
        while i < len(hist):
            ev = hist[i]
            a = ev["a"]
            if a == "mutate":
                pool.mutate(ev["addr"], ev["v"])
            elif a == "wrap":
                before = snapshot(pool.orig1)
                pool.wrap()
                n_exec += 1
                if snapshot(pool.orig1) != before:
                    bad.append({"why": "wrap_as_signable modified its argument", "at": i})
                if any(id(x) == id(y) for x in walk_containers(pool.E["E2"]["signed"]) for y in walk_containers(pool.orig1)):
                    bad.append({"why": "wrap_as_signable shares mutable objects with its argument (copy is not deep)", "at": i})
            elif a == "sign":
                pool.sign("E2", ev["k"], via_library=True)
                n_exec += 1
            elif a == "begin" and i in by_begin and "observed" not in by_begin[i]:
                c = by_begin[i]
                # the other thread's call overlapping this one (if any) is run concurrently under a derived schedule
                overl = [d for d in calls if d is not c and d["begin"] > c["begin"] and d["begin"] < c["end"]]
                group = [c] + overl[:1]
                snaps = [snapshot(pool.E[g["e"]]) for g in group]
                pubs_snap = snapshot(pool.pubs)
                if threaded and len(group) == 2:
                    # order of the spec's step events between the two calls -> line schedule
                    order = [hist[j]["t"] for j in range(c["begin"], max(g["end"] for g in group) + 1)
                             if hist[j]["a"] in ("step", "end", "begin") and hist[j]["t"] in (group[0]["t"], group[1]["t"])]
                    tid = {group[0]["t"]: 0, group[1]["t"]: 1}
                    sched_list = [(tid[t], 25) for t in order]
                    s = sched.Scheduler(sched_list)
                    res, counts = s.run([pool.call(g["e"], g["thr"]) for g in group])
                    n_exec += 2
                    for g, r_ in zip(group, res):
                        g["observed"] = outcome_of(r_)
                        g["mode"] = "threads"
                else:
                    for g in group[:1]:
                        try:
                            pool.call(g["e"], g["thr"])()
                            g["observed"] = "accept"
                        except Exception as e:  # noqa: BLE001
                            g["observed"] = lib.family(lib.classify(e))
                        g["mode"] = "sequential"
                        n_exec += 1
                for g, sn in zip(group, snaps):
                    if "observed" in g and snapshot(pool.E[g["e"]]) != sn:
                        bad.append({"why": "verify_signable modified the envelope passed to it", "at": i, "call": g})
                if snapshot(pool.pubs) != pubs_snap:
                    bad.append({"why": "verify_signable modified the authorized-key list", "at": i})
            i += 1
    finally:
        sys.stdout = old_stdout
    for c in calls:
        if "observed" not in c:
            # a call that started while another was in flight and was already executed with it, or never grouped: run it now is wrong
            continue
        if c["observed"] != c["expected"]:
            bad.append({"why": f"verdict {c['observed']} differs from the function of the arguments ({c['expected']}) [{c['mode']}]", "call": {k: c[k] for k in ("t", "e", "thr", "expected", "observed", "mode")}})
    return bad, n_exec, sum(1 for c in calls if "observed" in c)


def walk_containers(v):
    if isinstance(v, dict):
        yield v
        for x in v.values():
            yield from walk_containers(x)
    elif isinstance(v, list):
        yield v
        for x in v:
            yield from walk_containers(x)


def preemption_schedules(run, quick, two_preemptions=None):
    """Every schedule with <= 2 pre-emptions at every line offset (sampled for 2), for fixed pairs of calls over shared
    trusted metadata; each thread's verdict must equal its sequential verdict."""
    auth = lib.cct("authentication")
    keys = gamma.Keys(3, run.seed, offset=1100)
    pubs = [keys.pub[k] for k in (1, 2, 3)]
    r = random.Random(run.seed)
    root = {"signatures": {}, "signed": metadata.delegating_doc("root", 1, {"root": metadata.rule(pubs[:2], 2), "key_mgr": metadata.rule(pubs[1:], 2)}, r)}
    km = metadata.delegating_doc("key_mgr", 1, {"pkg_mgr": metadata.rule([pubs[0]], 1)}, r)

    def rsign(doc, ks):
        b = twin_canon(doc)
        return {keys.pub[k]: {"signature": keys.sign(k, b).hex()} for k in ks}
    good = {"signatures": rsign(km, [2, 3]), "signed": km}
    km_other = copy.deepcopy(km)
    km_other["version"] = 2
    related = {"signatures": rsign(km, [2, 3]), "signed": km_other}          # same keys, same signatures, different payload
    half = {"signatures": {**rsign(km, [2]), "junk": "x"}, "signed": km}
    from . import traces_delegation, traces_verify
    D = lambda env: ("verify_delegation", ("key_mgr", env, root, False))      # noqa: E731
    S = lambda env: ("verify_signable", (env, pubs[1:], 2, False))            # noqa: E731
    specs = [("good|related", D(good), D(related)), ("half|good", D(half), D(good)), ("signable good|related", S(good), S(related))]

    def mk(call):
        api, args = call
        if api == "verify_delegation":
            return lambda: auth.verify_delegation(args[0], args[1], args[2], gpg=args[3])
        return lambda: auth.verify_signable(args[0], list(args[1]), args[2], gpg=args[3])

    def allowed_of(call):
        """The requirement layer's allowed outcomes for this call, from TLC (Trace_Delegation / Trace_Verify)."""
        api, args = call
        if api == "verify_delegation":
            ev = traces_delegation.alpha_call(args[0], args[1], args[2], args[3], "accept")
            seen = traces_verify.validate(run, [{"id": 1, "events": [ev]}], cfg="Trace_Delegation.cfg", module="Trace_Delegation")
        else:
            ev = traces_verify.alpha_call(args[0], list(args[1]), args[2], args[3], "accept")
            seen = traces_verify.validate(run, [{"id": 1, "events": [ev]}])
        return seen[(1, 1)]["allowed"]
    pairs = [(name, mk(c0), mk(c1), [allowed_of(c0), allowed_of(c1)]) for name, c0, c1 in specs]
    old_stdout = sys.stdout
    sys.stdout = lib.Sink()
    total = 0
    try:
        for name, f0, f1, allowed in pairs:
            snaps = [snapshot(x) for x in (good, related, half, root)]
            base, counts = sched.Scheduler([]).run([f0, f1])
            want = allowed
            for order in ((f0, f1), (f1, f0), (f0, f0, f1, f1)):      # plain sequential histories in both orders, with repeats
                for fn in order:
                    try:
                        fn()
                        o = "accept"
                    except Exception as e:  # noqa: BLE001
                        o = lib.family(lib.classify(e))
                    exp = allowed[0] if fn is f0 else allowed[1]
                    if o not in exp:
                        run.violation(f"sequential history over related inputs ({name}): verdict {o}, the function of the arguments is {exp}",
                                      {"kind": "schedule", "pair": name})
            n0, n1 = counts.get(0, 0), counts.get(1, 0)
            schedules = [[(0, k), (1, 10 ** 9)] for k in range(0, n0 + 1)] + [[(1, k), (0, 10 ** 9)] for k in range(0, n1 + 1)]
            two = [[(0, k0), (1, k1), (0, 10 ** 9)] for k0 in range(0, n0 + 1) for k1 in range(1, n1 + 1)]
            r.shuffle(two)
            schedules += two[: (two_preemptions if two_preemptions is not None else (300 if quick else 6000))]
            for s in schedules:
                res, _ = sched.Scheduler(s).run([f0, f1])
                total += 1
                run.evaluations += 2
                got = [outcome_of(x) for x in res]
                if any(g not in w for g, w in zip(got, want)):
                    run.violation(f"concurrent verification ({name}): verdicts {got} under a pre-emptive schedule differ from the sequential verdicts {want}",
                                  {"kind": "schedule", "pair": name, "schedule": s[:3]})
                    break
            if [snapshot(x) for x in (good, related, half, root)] != snaps:
                run.violation(f"concurrent verification ({name}) modified shared arguments", {"kind": "schedule", "pair": name})
            run.extra.setdefault("line_events_per_call", {})[name] = [n0, n1]
    finally:
        sys.stdout = old_stdout
    run.extra["preemption_schedules_run"] = total
    run._distinct.update(f"sched{i}" for i in range(total))


def related_input_histories(run, n):
    """Histories 'accepted call, then a related call' (same keys and signatures with another payload, other headers,
    the other mode, entries moved between keys ...), in one process, in both orders and repeated.  Every verdict is
    judged by Trace_Verify.tla from the call's own arguments: it must not depend on what was verified before."""
    from . import crypto, traces_verify
    auth = lib.cct("authentication")
    keys = gamma.Keys(4, run.seed, offset=1200)
    r = random.Random(run.seed * 17 + 3)
    traces, conc = [], {}
    for tid in range(1, n + 1):
        P, Q = gamma.make_payloads(r)
        Pb = twin_canon(P)
        gpg = r.random() < 0.5
        ks = r.sample(range(1, 5), r.randint(1, 3))
        hdr = r.choice(gamma.HEADERS)
        sigs = {}
        for k in ks:
            if gpg:
                sigs[keys.pub[k]] = {"other_headers": hdr.hex(), "signature": keys.sign(k, crypto.gpg_digest(Pb, hdr)).hex()}
            else:
                sigs[keys.pub[k]] = {"signature": keys.sign(k, Pb).hex()}
        base = ({"signatures": sigs, "signed": P}, [keys.pub[k] for k in ks], len(ks), gpg)
        kind = r.randrange(7)
        env2 = copy.deepcopy(base[0])
        auth2, gpg2 = list(base[1]), gpg
        if kind == 0:
            env2["signed"] = Q                                        # same keys, same signatures, different payload
        elif kind == 1 and gpg:
            k0 = sorted(env2["signatures"])[0]
            h2 = r.choice([h for h in gamma.HEADERS if h != hdr])
            env2["signatures"][k0]["other_headers"] = h2.hex()        # same signature, other hashed headers
        elif kind == 2:
            gpg2 = not gpg                                            # the other mode
        elif kind == 3 and not gpg:
            for e in env2["signatures"].values():
                e["other_headers"] = hdr.hex()                        # raw signature dressed as an OpenPGP entry, OpenPGP mode
            gpg2 = True
        elif kind == 4 and len(ks) >= 2:
            a, b = sorted(env2["signatures"])[:2]
            env2["signatures"][a], env2["signatures"][b] = env2["signatures"][b], env2["signatures"][a]   # entries swapped between keys
        elif kind == 5:
            other = [keys.pub[k] for k in range(1, 5) if k not in ks]
            if other:
                k0 = sorted(env2["signatures"])[0]
                env2["signatures"][other[0]] = env2["signatures"].pop(k0)   # valid entry moved under another (authorized) key
                auth2 = [other[0] if x == k0 else x for x in auth2]
        else:
            env2["signed"] = copy.deepcopy(P)
            if isinstance(env2["signed"], dict):
                env2["signed"]["_x"] = 1
            else:
                env2["signed"] = [env2["signed"]]
        calls = [base, (env2, auth2, len(auth2), gpg2)]
        order = r.choice([[0, 1], [1, 0, 1], [0, 0, 1, 1], [0, 1, 0]])
        evs, cs = [], []
        for i in order:
            env, au, thr, g = calls[i]
            out, exc, _ = lib.call(auth.verify_signable, copy.deepcopy(env), list(au), thr, gpg=g)
            run.evaluations += 1
            ev = traces_verify.alpha_call(env, au, thr, g, out)
            if ev:
                evs.append(ev)
                cs.append({"envelope": env, "authorized": au, "threshold": thr, "gpg": g, "observed": out, "exc": exc, "position_in_history": len(evs)})
        if evs:
            traces.append({"id": tid, "events": evs})
            conc[tid] = cs
        run._distinct.add("rel%d" % tid)
    traces_verify.judge(run, traces, conc, lambda o: True, label="history of related inputs:")
    run.extra["related_input_histories"] = len(traces)
