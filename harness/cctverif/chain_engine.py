"""C04: the client root-update loop, in both directions.

spec -> code: behaviours of RootChain.tla (tlc -simulate, History = TRUE) are stepped through a real client
loop that holds a real root document, calls verify_root, replaces the root only on normal return and
persists / reloads it with write_metadata_to_file / load_metadata_from_file.

code -> spec: a seeded adversary drives the same loop with long random histories (5 keys, 9 versions); the
recorded events are judged by Trace_RootChain.tla."""
from __future__ import annotations

import copy
import json
import os
import random

from . import crypto, gamma, lib, metadata
from .tlc import MachineryFailure
from .traces_verify import validate
from .twins import twin_canon


class World:
    """Concrete counterpart of RootChain's contents/envelopes; deterministic per (content, salt)."""

    def __init__(self, nk, seed, salt, base=0):
        self.keys = gamma.Keys(nk, seed, offset=500)
        self.salt = salt
        self.base = base
        self._docs = {}
        self.seen = {}          # key -> signature entries made so far over ANY content (what an on-path attacker can copy)

    def doc(self, c):
        key = (c["ver"], tuple(sorted(c["rk"])), c["rt"], c["tag"])
        if key not in self._docs:
            r = random.Random(hash((self.salt,) + key) & 0xFFFFFFFF)
            rk = [self.keys.pub[int(k)] for k in sorted(c["rk"])]
            r.shuffle(rk)
            d = metadata.delegating_doc("root", self.base + c["ver"],
                                        {"root": metadata.rule(rk, c["rt"]), "key_mgr": metadata.rule([self.keys.pub[1]], 1)},
                                        r, tag=f"{c['tag']}-{self.salt}")
            self._docs[key] = d
        return copy.deepcopy(self._docs[key])

    def envelope(self, c, signers, r, decoys=True):
        """Envelope for content c validly signed by `signers`.  Every other key may additionally carry an entry copied
        verbatim from an earlier envelope (a genuine signature by that key over OTHER content): such entries never
        count in the specification, and an on-path attacker can always add them."""
        d = self.doc(c)
        b = twin_canon(d)
        sigs = {}
        order = list(signers)
        r.shuffle(order)
        for k in order:
            h = r.choice(gamma.HEADERS)
            ent = {"other_headers": h.hex(), "signature": self.keys.sign(int(k), crypto.gpg_digest(b, h)).hex()}
            sigs[self.keys.pub[int(k)]] = ent
            self.seen.setdefault(int(k), []).append((b, copy.deepcopy(ent)))
        if decoys:
            for pub, ent in list(sigs.items()):       # the same valid entry again under other spellings of the key: never counts twice
                if r.random() < 0.35:
                    for alt in {pub.upper(), pub[:20] + pub[20:].upper(), " " + pub}:
                        if alt != pub and r.random() < 0.7:
                            sigs[alt] = copy.deepcopy(ent)
            for k, lst in self.seen.items():
                others = [e for (bb, e) in lst if bb != b]
                if self.keys.pub[k] not in sigs and others and r.random() < 0.6:
                    sigs[self.keys.pub[k]] = copy.deepcopy(r.choice(others))
        items = list(sigs.items())
        r.shuffle(items)
        return {"signatures": dict(items), "signed": d}

    def alpha(self, root):
        """Project a concrete trusted root back to an abstract content."""
        s = root["signed"]
        rr = s["delegations"]["root"]
        inv = {v: k for k, v in self.keys.pub.items()}
        return {"ver": s["version"] - self.base, "rk": sorted(inv[p] for p in rr["pubkeys"]), "rt": rr["threshold"],
                "tag": s["x-tag"].split("-")[0]}


INITIAL = {"ver": 1, "rk": [1, 2], "rt": 1, "tag": "h"}


def norm(c):
    return {"ver": c["ver"], "rk": sorted(int(x) for x in c["rk"]), "rt": c["rt"], "tag": c["tag"]}


class Client:
    """The loop the library defines: keep a root, replace it only when verify_root returns normally."""

    def __init__(self, world, workdir, r):
        self.w = world
        self.dir = workdir
        self.r = r
        self.auth = lib.cct("authentication")
        self.common = lib.cct("common")
        self.root = world.envelope(INITIAL, [1], r)
        self.path = None

    def offer(self, env, encoding="utf-8"):
        snapshot = copy.deepcopy(self.root)
        out, exc, _ = lib.call(self.auth.verify_root, self.root, env, encoding=encoding)
        mutated = twin_canon(self.root) != twin_canon(snapshot)
        if out == "accept":
            self.root = env
        return out, exc, mutated

    def persist(self):
        self.path = os.path.join(self.dir, f"{self.root['signed']['version']}.root.json")
        self.common.write_metadata_to_file(self.root, self.path)

    def restart(self):
        self.root = self.common.load_metadata_from_file(self.path)


class CliClient(Client):
    """The same loop driven through the command line: `verify-metadata <trusted file> <offered file>`; the offered file becomes the
    trusted one exactly when the command's exit status is 0 (`sys.exit(cli())`: a returned None is status 0)."""

    def __init__(self, world, workdir, r):
        super().__init__(world, workdir, r)
        self.cli = lib.cct("cli")
        self.n = 0

    def offer(self, env, encoding="utf-8"):
        self.n += 1
        tp = os.path.join(self.dir, "cli-trusted-%d.json" % os.getpid())
        op = os.path.join(self.dir, "cli-offered-%d.json" % os.getpid())
        with open(tp, "wb") as f:
            f.write(twin_canon(self.root))
        with open(op, "wb") as f:
            f.write(twin_canon(env) if isinstance(env, (dict, list)) else env)
        status = []

        def go():
            try:
                rc = self.cli.cli(["verify-metadata", tp, op])
            except SystemExit as e:
                rc = e.code
            status.append(0 if rc is None else rc)
        out, exc, _ = lib.call(go, encoding=encoding)
        if out == "accept":
            out = "accept" if status and status[0] == 0 else f"exit:{status[0] if status else '?'}"
        with open(tp, "rb") as f:
            mutated = f.read() != twin_canon(self.root)
        if out == "accept":
            self.root = self.common.load_metadata_from_file(op)
        return out, exc, mutated


def malform(env, r):
    """Something that is not a signed envelope around the same content and signatures."""
    e = copy.deepcopy(env)
    k = r.randrange(6)
    if k == 0:
        e["note"] = "padding"
    elif k == 1:
        e["signatures"] = [e["signatures"]]
    elif k == 2:
        e["signatures"] = list(e["signatures"].items())
    elif k == 3:
        e = [e]
    elif k == 4:
        e["signed "] = e["signed"]
    else:
        e[""] = None
    return e


def replay_behaviour(hist, seed, workdir, idx, client="api"):
    """Step one TLC behaviour through the real client; returns list of discrepancies."""
    r = random.Random(seed * 1000003 + idx)
    w = World(4, seed, salt=f"b{idx}", base=r.choice(metadata.VERSION_BASES))
    cl = (CliClient if client == "cli" else Client)(w, workdir, r)
    bad = []
    n_exec = 0
    for i, ev in enumerate(hist):
        a = ev["a"]
        if a in ("offer", "offer_malformed"):
            env = w.envelope(ev["content"], ev["signers"], r)
            if r.random() < 0.3:   # on-path padding of the unsigned part never matters
                env["signatures"][gamma.junk_name(r)] = {"signature": "0" * 128}
            if a == "offer_malformed":
                env = malform(env, r)
            if r.random() < 0.4 and isinstance(env, dict) and isinstance(env.get("signed"), dict):
                env["signed"] = gamma.share_equal_parts(env["signed"], cl.root, r, 0.8)      # the offered root shares equal parts with the trusted one
            dead = "accept" not in ev["allowed"] and r.random() < 0.2      # offers that must not be accepted: sometimes with a stdout on which every write fails
            out, exc, mutated = cl.offer(env, encoding=r.choice(lib.BROKEN_STDOUTS)) if dead else cl.offer(env)
            if dead and out != "accept":
                out = ev["allowed"][0]          # rejected one way or another: with a dead stdout only the acceptance is judged
            n_exec += 1
            try:
                after = cl.w.alpha(cl.root)
            except Exception as e:  # noqa: BLE001 - the client installed something that is not even root metadata
                after = {"not root metadata": type(e).__name__}
            if client == "cli":      # the command line reports a status, not an exception class: only accepted / not accepted is compared
                okc = (out == "accept") == (ev["allowed"] == ["accept"]) if len(ev["allowed"]) == 1 or "accept" not in ev["allowed"] else True
                if not okc:
                    bad.append({"step": i, "why": "outcome (command line)", "observed": out, "exc": exc, "allowed": ev["allowed"], "event": ev})
                elif after != norm(ev["after"]):
                    bad.append({"step": i, "why": "post-state (command line)", "observed": out, "after": after, "event": ev})
            elif lib.family(out) not in ev["allowed"]:
                bad.append({"step": i, "why": "outcome", "observed": out, "exc": exc, "allowed": ev["allowed"], "event": ev})
            elif after != norm(ev["after"]):
                bad.append({"step": i, "why": "post-state", "observed": out, "after": after, "event": ev})
            if mutated:
                bad.append({"step": i, "why": "trusted root mutated by verify_root", "observed": out, "event": ev})
            if bad:
                break                  # the client has left the specified behaviour: later steps say nothing more
        elif a == "persist":
            cl.persist()
            n_exec += 1
        elif a == "restart":
            cl.restart()
            n_exec += 1
            after = cl.w.alpha(cl.root)
            if after != norm(ev["after"]):
                bad.append({"step": i, "why": "restart-state", "after": after, "event": ev})
    return bad, n_exec


def simulate_and_replay(run, num, depth, owner_label="C04"):
    r = run.tlc("RootChain", "RootChain_sim.cfg", workers=1, simulate=f"num={num}", depth=depth + 1, seed=run.seed + 1, timeout=1800)
    seen, behaviours = set(), []
    for h in r.cases:
        k = json.dumps(h, sort_keys=True)
        if k not in seen:
            seen.add(k)
            behaviours.append(h)
    if not behaviours:
        raise MachineryFailure("no behaviours from RootChain simulation")
    workdir = os.path.join(run.scratch, "chain")
    os.makedirs(workdir, exist_ok=True)
    kinds = {}
    for idx, h in enumerate(behaviours):
        bad, n = replay_behaviour(h, run.seed, workdir, idx)
        if idx % 2 == 0:      # every second behaviour again with the command-line client
            bad2, n2 = replay_behaviour(h, run.seed, workdir, idx, client="cli")
            bad, n = bad + bad2, n + n2
        run.evaluations += n
        run._distinct.add("b" + str(hash(json.dumps(h, sort_keys=True))))
        for ev in h:
            kinds[ev["a"]] = kinds.get(ev["a"], 0) + 1
        if not bad:
            run.traces_validated += 1
        for b in bad:
            ev = b["event"]
            run.violation(f"client loop replay: {b['why']} at {ev['a']} allowed={'|'.join(sorted(ev.get('allowed', [])))} observed={b.get('observed')}",
                          {"kind": "rootchain_behaviour", "behaviour": h, "index": idx, "discrepancy": b})
    run.sample({"behaviour": behaviours[0]})
    run.extra["behaviours_replayed"] = len(behaviours)
    run.extra["behaviour_action_counts"] = kinds
    accepted = sum(1 for h in behaviours for ev in h if ev["a"] == "offer" and ev["allowed"] == ["accept"])
    run.extra["accepted_offers_in_behaviours"] = accepted


# ------------------------------------------------------------------------------------------ code -> spec
def random_history(run, tid, length, workdir):
    """A seeded adversary + honest repository drive the real client; every step is logged."""
    NKT, MAXVER = 5, 9
    r = random.Random(run.seed * 7 + tid)
    w = World(NKT, run.seed, salt=f"t{tid}")
    cl = Client(w, workdir, r)
    head = dict(INITIAL)
    published, adv, events, conc = [], set(), [], []
    trusted_abs = dict(INITIAL)

    def rand_rule():
        rk = sorted(r.sample(range(1, NKT + 1), r.randint(0, 4)))
        return rk, r.randint(1, 3)

    for _ in range(length):
        x = r.random()
        if x < 0.10 and head["ver"] < MAXVER:
            rk, rt = rand_rule()
            if rt <= len(rk):
                need_old = r.sample(head["rk"], head["rt"]) if len(head["rk"]) >= head["rt"] else None
                if need_old is not None:
                    sg = sorted(set(need_old) | set(r.sample(rk, rt)))
                    c = {"ver": head["ver"] + 1, "rk": rk, "rt": rt, "tag": "h"}
                    published.append((c, sg))
                    head = c
                    events.append({"a": "rotate", "content": c, "signers": sg})
                    conc.append({})
            continue
        if x < 0.13 and head["ver"] < MAXVER:
            rk, rt = rand_rule()
            c = {"ver": head["ver"] + 1, "rk": rk, "rt": rt, "tag": "h"}
            sg = sorted(head["rk"])
            ok = len(set(sg) & set(head["rk"])) >= head["rt"] and len(set(sg) & set(rk)) >= rt
            if not ok and not any(p[0] == c for p in published):
                published.append((c, sg))
                events.append({"a": "careless", "content": c, "signers": sg})
                conc.append({})
            continue
        if x < 0.18 and len(adv) < 4:
            k = r.choice([k for k in range(1, NKT + 1) if k not in adv])
            adv.add(k)
            events.append({"a": "compromise", "key": k})
            conc.append({})
            continue
        if x < 0.24:
            cl.persist()
            events.append({"a": "persist"})
            conc.append({"path": cl.path})
            continue
        if x < 0.28 and cl.path:
            cl.restart()
            trusted_abs = w.alpha(cl.root)
            events.append({"a": "restart", "after": trusted_abs})
            conc.append({"path": cl.path})
            continue
        # an offer
        y = r.random()
        if published and y < 0.45:
            nxt = [p for p in published if p[0]["ver"] == trusted_abs["ver"] + 1]
            c, sg = r.choice(nxt) if nxt and r.random() < 0.7 else r.choice(published)
            sg2 = [k for k in sg if r.random() < 0.85] + [k for k in adv if r.random() < 0.5]
            sg2 = sorted(set(sg2))
        else:
            rk, rt = rand_rule()
            if adv and r.random() < 0.5:
                rk = sorted(set(rk) | set(r.sample(sorted(adv), 1)))
            ver = trusted_abs["ver"] + 1 if r.random() < 0.7 else r.randint(1, MAXVER)
            ver = min(ver, MAXVER)
            c = {"ver": ver, "rk": rk, "rt": rt, "tag": "a"}
            sg2 = sorted(k for k in adv if r.random() < 0.9)
        env = w.envelope(c, sg2, r)
        out, exc, mutated = cl.offer(env)
        run.evaluations += 1
        trusted_abs = w.alpha(cl.root)
        events.append({"a": "offer", "content": c, "signers": sg2, "outcome": lib.family(out), "after": trusted_abs,
                       "mutated": mutated})
        conc.append({"offered": env, "observed": out, "exc": exc})
    return {"id": tid, "events": events}, conc


def random_histories(run, n, length):
    workdir = os.path.join(run.scratch, "hist")
    os.makedirs(workdir, exist_ok=True)
    traces, conc = [], {}
    for tid in range(1, n + 1):
        t, c = random_history(run, tid, length, workdir)
        traces.append(t)
        conc[tid] = c
    seen = validate(run, traces, cfg="Trace_RootChain.cfg", module="Trace_RootChain")
    naccept = 0
    for t in traces:
        rejected = False
        for i, ev in enumerate(t["events"], 1):
            line = seen[(t["id"], i)]
            if ev["a"] == "offer" and ev["outcome"] == "accept":
                naccept += 1
            if ev.get("mutated"):
                rejected = True
                run.violation("history: verify_root mutated the trusted root", {"kind": "rootchain_history", "trace": t, "event_index": i})
            if not line["ok"]:
                rejected = True
                run.violation(f"history: {line['why']} ({ev['a']}; allowed={'|'.join(sorted(line['allowed']))} observed={ev.get('outcome')})",
                              {"kind": "rootchain_history", "trace": t, "event_index": i, "concrete": conc[t["id"]][i - 1],
                               "spec_after": line["spec_after"], "allowed": line["allowed"]})
        if not rejected:
            run.traces_validated += 1
        run._distinct.add("h%d" % t["id"])
    run.sample({"history": {"id": traces[0]["id"], "events": traces[0]["events"][:12]}})
    run.extra["history_events"] = sum(len(t["events"]) for t in traces)
    run.extra["accepted_offers_in_histories"] = naccept
