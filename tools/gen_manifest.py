#!/usr/bin/env python3
"""Regenerates /verif/MANIFEST.json from the table below (kept in one place so that it always validates)."""
import json
import os

HERE = os.path.dirname(os.path.dirname(os.path.abspath(__file__)))
props = [json.loads(l) for l in open(os.path.join(HERE, "properties.jsonl"))]

TB = ("trusted base: TLC, the TLA+ text, alpha/gamma in /verif/harness, hashlib, pyca/cryptography called directly as an independent signer, "
      "a pure-Python RFC 8032 reference (checked against the RFC vectors), json.loads, sys.settrace; ed25519 unforgeability and SHA-256 "
      "collision freedom are assumed (symbolic in the spec)")

CHECKS = {
 "C01": ("model_checking", "3.2, 6 C01", "TLC enumeration of Verify.tla + replay into verify_signable + Trace_Verify trace validation",
         "Verify.tla (verify_signable as a step machine) is model-checked exhaustively for all examination orders against the declarative Signers/Sound requirement (7 spec mutants must be killed); every initial state (per-key entry state x alt spelling x junk x authorized subset x threshold x mode) is concretised with real keys and independent signers and executed; seeded adversarial envelopes are abstracted and judged by Trace_Verify.tla."),
 "C02": ("model_checking", "3.2, 6 C02", "TLC enumeration of Verify.tla + replay (stdout encodings, fresh-interpreter configurations) + Trace_Verify on library-signed envelopes and shipped fixtures",
         "Same state space, completeness direction: whenever the requirement layer says enough valid authorized signers, the code must accept - under UTF-8/ASCII/Latin-1 stdout sinks, in fresh interpreters with different pre-imported module sets, with junk of every kind; envelopes signed by the library's own signers and the shipped fixtures are judged by Trace_Verify.tla with an independent signature oracle."),
 "C03": ("model_checking", "3.2, 6 C03", "TLC enumeration of Root.tla (RootIff) + replay into verify_root + Trace_Root trace validation",
         "Root.tla: RootIff over all (trusted, offered) pairs incl. 47 malformation classes, declared types, missing root rule; 6 spec mutants killed; every pair built as real JSON with OpenPGP-framed signatures and run through verify_root; fixture chains and random pairs judged by Trace_Root.tla."),
 "C04": ("model_checking", "3.3, 6 C04", "TLC exhaustive exploration of RootChain.tla + simulated behaviours replayed through a real client loop + Trace_RootChain on random histories",
         "RootChain.tla (client, honest repository, adversary, persist/restart) is explored exhaustively for NoTakeover(Step), Monotone, ChainInv, NeverStuck, PersistNeutral, OfferEffect (5 mutants killed); TLC -simulate behaviours (4 keys, 6 versions) are stepped through a real client holding real root files; long seeded histories (5 keys, 9 versions) are judged by Trace_RootChain.tla, which requires every verdict and post-state to follow from the current spec state alone."),
 "C05": ("model_checking", "3.2, 6 C05", "TLC enumeration of Delegation.tla (RoleExact) + replay into verify_delegation + Trace_Delegation",
         "Delegation.tla: named role's rule vs decoy rules (other roles, the untrusted side's own delegations list every key), unknown roles, malformed arguments; 4 mutants killed; all cases executed; fixtures and random histories judged by Trace_Delegation.tla."),
 "C06": ("model_checking", "3.2, 6 C06", "TLC enumeration of Delegation/Verify/Root specs (TypeBound, StripMonotone) + replay incl. Strip(envelope) re-runs",
         "TypeBound and StripMonotone are invariants of the specs; every validly signed delegating document of type t is presented for every role with every manipulation of the unsigned part; every accepted case of all three verifiers is re-run on the envelope that keeps only valid authorized signatures."),
 "C07": ("model_checking", "3.7, 6 C07", "Canon.tla (published format transcribed) enumerated by TLC + byte-exact replay into canonserialize in several interpreter configurations",
         "Canon.tla's Ser is the published format; TLC enumerates the bounded JSON domain with every insertion order and prints (value, bytes); canonserialize / write_metadata_to_file must produce exactly those bytes in every configuration (hash seed, locale, TZ, cwd, stdout), parse back to the value, be a fixpoint, and be injective on the domain. Beyond the bounded domain (all floats, huge integers, all of Unicode) the evidence is seeded sampling against the cross-checked twin."),
 "C08": ("model_checking", "3.5, 6 C08", "TLC path enumeration of Signing.tla with file actions + replay on real files",
         "Signing.tla with write/load: RoundTrip, AddSigPreserves, SignerBinding; every path up to the depth bound replayed on real files with stress payloads; file bytes = canonical bytes, loaded value re-serializes identically, verifier outcomes (threshold sweeps) equal the specification's before and after every cycle."),
 "C09": ("model_checking", "3.4, 6 C09", "TLC path enumeration of Signing.tla + replay into wrap_as_signable/sign_signable/verify_signable with an independent RFC 8032 signer",
         "Signing.tla: SignLocal, SignEffective, SignIdempotent, SignCommutes, SignerBinding, Boundary, EditInvalidates (3 mutants killed); every path replayed; after each step alpha(envelope) = spec state, signature bytes = independent signer's, threshold sweep matches."),
 "C11": ("model_checking", "3.4, 6 C11", "TLC enumeration of InPlace.tla document shapes + real-file signing judged by Trace_InPlace (DomainExact, OwnMetadata, MatchesFn)",
         "InPlace.tla's repodata procedure: DomainExact, OwnMetadata, NoCrossVerify, MatchesFn (3 mutants killed); all ~1600 non-trivial document shapes x {library call, CLI} signed on real files; results abstracted with an independent oracle and judged by Trace_InPlace.tla; canonical form, untouched fields, determinism, idempotence and client-side verification through a pkg_mgr delegation checked concretely; large random documents and shipped samples."),
 "C13": ("model_checking", "3.2, 6 C13", "Allowed sets of Verify/Root/Delegation specs + Errors.tla judged over an exhaustive position x wrong-kind mutation domain",
         "Refines/Terminates are checked on the verifier specs; their enumerations are replayed owning wrong-family and internal-error outcomes; every argument position / JSON path of 32 public validators and verifiers is replaced by every wrong kind (~200k calls quick), each under a watchdog; (api, outcome) classes are judged by Errors.tla, classifiable calls by the verifier trace specs."),
 "C14": ("model_checking", "3.7, 6 C14", "Schema.tla (three-valued requirement + checker transcription) enumerated by TLC + replay into checkformat_delegating_metadata and all verifiers",
         "Schema.tla: every single (thorough: pair of) mutation(s) of every valid base document over 9 fields x 7..31 classes; Refines, MutationRejected (5 mutants killed); each abstract document concretised and checked; accepted documents are passed to every verifier in every argument position and must not fail internally."),
 "C15": ("model_checking", "3.7, 6 C15", "Formats.tla grammars over character-class templates enumerated by TLC + replay into every is_*/checkformat_* pair",
         "Formats.tla: 60k templates/shapes/lists; OneSpelling and ListOK are ASSUMEd theorems checked by TLC (3 mutants killed); each template instantiated with random characters of its classes; predicate form must equal raising form; exhaustive over classes, sampled within a class."),
 "C10": ("model_checking", "3.7, 6 C10", "Gpg.tla framing (injectivity, impostor table) checked by TLC + replay into verify_gpg_signature/verify_signable + real GnuPG signatures transcribed by the library",
         "Gpg.tla: RFC 4880 5.2.4 DigestInput is injective on a bounded byte domain (2 mutants killed) and TLC decides for every impostor framing and header length whether it coincides with the RFC framing; header lengths 1..70000 x payload sizes x 7 framings x SHA-256/512 x 9 corruptions replayed; detached signatures freshly made by the gpg binary (temporary GNUPGHOME, generated ed25519 keys + the repository's test keys) are transcribed by sign_root_metadata_via_gpg through a GnuPG-backed stand-in for securesystemslib and must verify, every corruption must not. SHA-256/ed25519 arithmetic itself is bound differentially (hashlib, pure-Python RFC 8032, gpg --verify)."),
 "C12": ("model_checking", "3.6, 6 C12", "TLC exhaustive exploration of Calls.tla (heap, threads, mutation) + behaviours replayed over a real pool incl. real threads under a deterministic line scheduler",
         "Calls.tla (two-level heap, shared pool, two threads stepping through the verifier loop, caller mutation, wrap, sign): Pure, ResultIsFunction, WrapIsolates (3 mutants killed: shallow copy, shared accumulator, verdict cache); every sequential 4-operation history (exhaustive) and simulated 2-thread behaviours replayed with deep argument snapshots; overlapping calls run as real threads under a deterministic line scheduler; all 1-pre-emption and sampled 2-pre-emption line schedules for fixed pairs over shared trusted metadata with expectations from the verifier specs; histories repeated in fresh interpreters per configuration."),
 "C16": ("model_checking", "3.7, 6 C16", "Builders.tla (argument classes composed with SchemaReq) enumerated by TLC + replay into the builders + built root chains judged by Trace_Root",
         "Builders.tla: every argument-class tuple; BuiltIsValid / CorruptNeverValid invariants tie the builders to the schema; each tuple concretised and called: argument error iff TLC says so, otherwise verbatim fields, spec version, default expiry about one year after the timestamp, passes the checker; built v(n)..v(n+2) root chains signed with the OpenPGP signer are judged by Trace_Root.tla."),
 "C17": ("model_checking", "3.7, 6 C17", "Cli.tla (dispatch, verdict-to-exit-status, entry points) checked by TLC + every case run as a real process",
         "Cli.tla: ExitReflectsVerdict, SuccessSaidIffAccept, RootDispatch, ZeroOnlyIfSigned (4 mutants killed); every entry point (regenerated console script, python -m package, python -m cli module, in-process) x every file-pair class / signing outcome run as a real process on its own files; the library's verdict is taken from the same files in process."),
 "C19": ("model_checking", "3.7, 6 C19", "Keys.tla conversion graph paths enumerated by TLC + concrete walk compared with a pure-Python RFC 8032 reference",
         "Keys.tla: all conversion paths to depth 6/8, FunctionOfSeed (2 mutants killed); each path walked concretely for seeded seeds and the RFC 8032 vectors with every intermediate value compared to the reference; key files, equivalence laws, malformed encodings."),
 "C18": ("fault_enumeration", "3.5, 4.3, 6 C18", "InPlace.tla (NoEarlyTouch/AllOrNothing) + an injected exception at every executed line + audit hook, judged by Trace_InPlace",
         "InPlace.tla with Fault at every step (3 mutants killed); at the code level an exception is injected at every line event (library + json encoder frames) of the fault-free run of five procedures, the target's open-for-writing/rename is observed by an audit hook, and Trace_InPlace.tla searches for a specification behaviour explaining each observation; every malformed-input class is run as well."),
}

checks = []
for pid, (cat, ref, tech, text) in CHECKS.items():
    checks.append({
        "property_id": pid,
        "quick_cmd": f"./check {pid} --tier quick",
        "thorough_cmd": f"./check {pid} --tier thorough",
        "evidence_file": f"/verif/evidence/{pid}.json",
        "replay_cmd_template": f"./check {pid} --replay {{path}}",
        "engine": "cctverif",
        "level_claimed": {"category": cat, "text": text + "  Driver dimensions added since (scale, process environments, clock, aliasing between arguments, dead output stream, "
                          "fault classes, unusual-but-valid documents, ordinary-mutant thin spots) are listed per property in DESIGN.md 12.5.", "design_ref": "DESIGN.md section " + ref},
        "level_note": TB,
        "technique": tech,
    })

na = [{"property_id": p["id"], "reason": "check under construction in this session; not yet claimed"} for p in props if p["id"] not in CHECKS]
manifest = {
    "version": 1,
    "setup_cmd": "./tools/setup.sh",
    "hooks": {"guard": "CCT_VERIF_UNUSED",
              "enable": "no source hooks: observation is at the public API, sys.settrace, sys.addaudithook and subprocess boundaries; checks import /repo's working tree directly (pure Python, editable install)",
              "baseline_off_cmd": "cd /repo && /venv/bin/python -m pytest -ra -q -p no:cacheprovider --timeout=900 --continue-on-collection-errors",
              "source_commits": [], "add_only": True},
    "engines": [{"name": "cctverif", "path": "/verif/harness/cctverif", "serves_properties": sorted(CHECKS),
                 "kind_free_text": "explicit TLA+ specification in /verif/spec checked by TLC; spec->code replay of TLC-enumerated cases/behaviours and code->spec trace validation (Trace_*.tla)"}],
    "checks": checks,
    "not_applicable": na,
    "notes": "Entry point: ./check <id> --tier quick|thorough [--replay <path>]; VERIF_SEED, VERIF_TIER and VERIF_REPO are honoured. Exit 0 held / 1 VIOLATION / 2 machinery failure. Defects D1-D9 found by these checks were repaired in /repo by fix: commits (known_findings.json, DESIGN.md 12.3).",
}
with open(os.path.join(HERE, "MANIFEST.json"), "w") as f:
    json.dump(manifest, f, indent=1)
print("checks:", len(checks), "not_applicable:", len(na))
