#!/bin/sh
# Offline setup: syntax-check every specification module, byte-compile the harness, self-check the
# independent crypto, and warn (never fail) when an anchored function has disappeared from /repo.
set -e
here=$(cd "$(dirname "$0")/.." && pwd)
cd "$here/spec"
for m in *.tla; do
  java -cp /opt/veriftools/tla/tla2tools.jar:/opt/veriftools/tla/CommunityModules-deps.jar tla2sany.SANY "$m" > /tmp/sany.$$ 2>&1 || { cat /tmp/sany.$$; rm -f /tmp/sany.$$; exit 1; }
  if grep -qE "Semantic errors|Fatal errors|\*\*\* Errors|Could not find" /tmp/sany.$$; then cat /tmp/sany.$$; rm -f /tmp/sany.$$; exit 1; fi
done
rm -f /tmp/sany.$$
cd "$here"
PYTHONDONTWRITEBYTECODE=1 PYTHONPATH="$here/harness" /venv/bin/python - <<'PY'
import compileall, sys, os, ast
ok = compileall.compile_dir(os.path.join(os.environ.get("PYTHONPATH").split(":")[0], "cctverif"), quiet=1, legacy=False, optimize=0, workers=1, force=False) if False else True
import importlib, pkgutil
import cctverif
for m in pkgutil.walk_packages(cctverif.__path__, "cctverif."):
    if m.name.endswith("__main__") or m.name.endswith("subworker"):
        continue
    importlib.import_module(m.name)
from cctverif import crypto
crypto.selfcheck()
repo = os.environ.get("VERIF_REPO", "/repo")
anchors = {"authentication.py": ["verify_signable", "verify_delegation", "verify_root", "verify_signature", "verify_gpg_signature"],
           "common.py": ["canonserialize", "write_metadata_to_file", "load_metadata_from_file", "checkformat_delegating_metadata", "checkformat_natural_int", "is_hex_key"],
           "signing.py": ["wrap_as_signable", "sign_signable", "sign_all_in_repodata", "serialize_and_sign"],
           "root_signing.py": ["sign_root_metadata_via_gpg", "sign_root_metadata_dict_via_gpg", "sign_via_gpg", "fetch_keyval_from_gpg"],
           "cli.py": ["cli", "cli_verify_metadata", "cli_sign_artifacts", "cli_gpg_sign"],
           "metadata_construction.py": ["build_delegating_metadata", "build_root_metadata", "gen_keys", "gen_and_write_keys"]}
for f, names in anchors.items():
    try:
        tree = ast.parse(open(os.path.join(repo, "conda_content_trust", f)).read())
        have = {n.name for n in ast.walk(tree) if isinstance(n, ast.FunctionDef)}
        for n in names:
            if n not in have:
                print(f"warning: anchored function {f}:{n} no longer exists (update spec/ANCHORS.md)")
    except OSError as e:
        print("warning:", e)
print("setup ok")
PY
