#!/usr/bin/env python3
"""Evaluate a behaviour-preserving refactoring (written by a sub-agent that was told to keep all 19 properties): the pinned suite must be
unchanged and NO check may report a violation against a scratch worktree that carries it.  Stores patch + result under /verif/seeded/<id>/.
usage: benign_eval.py <id> <worktree-with-change> <dir with patch.diff notes.md> [checks...]"""
import concurrent.futures as cf
import json
import os
import re
import shutil
import subprocess
import sys
import tempfile

VERIF = os.path.dirname(os.path.dirname(os.path.abspath(__file__)))
ALL = ["C%02d" % i for i in range(1, 20)]


def sh(cmd, **kw):
    return subprocess.run(cmd, shell=True, capture_output=True, text=True, **kw)


def main():
    sid, wt, src = sys.argv[1:4]
    checks = sys.argv[4:] or ALL
    p = sh(f"cd {wt} && /venv/bin/python -m pytest -q -p no:cacheprovider tests 2>&1 | tail -15")
    m = re.search(r"(\d+) failed.*?(\d+) passed", p.stdout)
    meta = {"id": sid, "kind": "behaviour-preserving refactoring (no property may be reported)", "worktree_base": sh(f"git -C {wt} rev-parse HEAD").stdout.strip(),
            "tests_with_change": [int(m.group(1)), int(m.group(2))] if m else None}
    outdir = tempfile.mkdtemp(prefix="benign-out-")
    results = {}

    def run(pid):
        env = dict(os.environ, VERIF_REPO=wt, VERIF_OUT=outdir, VERIF_SEED=os.environ.get("VERIF_SEED", "0"))
        q = subprocess.run([os.path.join(VERIF, "check"), pid, "--tier", "quick"], env=env, capture_output=True, text=True, timeout=3600)
        sigs = re.findall(r"^  -- (.*)$", q.stdout, re.M)
        return pid, q.returncode, sigs[:8], (q.stdout + q.stderr)[-800:] if q.returncode == 2 else ""
    with cf.ThreadPoolExecutor(max_workers=3) as ex:
        for pid, rc, sigs, err in ex.map(run, checks):
            results[pid] = {"exit": rc, "violation_signatures": sigs, **({"stderr": err} if err else {})}
            print(pid, rc, sigs[:3], flush=True)
    shutil.rmtree(outdir, ignore_errors=True)
    meta["checks_run"] = {"command": "VERIF_REPO=<scratch worktree with the patch> ./check <id> --tier quick", "results": results}
    meta["alarms"] = sorted(p for p, r in results.items() if r["exit"] != 0)
    dst = os.path.join(VERIF, "seeded", sid)
    os.makedirs(dst, exist_ok=True)
    shutil.copy(os.path.join(src, "patch.diff"), os.path.join(dst, "patch.diff"))
    if os.path.exists(os.path.join(src, "notes.md")):
        shutil.copy(os.path.join(src, "notes.md"), os.path.join(dst, "notes.md"))
    with open(os.path.join(dst, "meta.json"), "w") as f:
        json.dump(meta, f, indent=1)
    print("alarms:", meta["alarms"])


if __name__ == "__main__":
    main()
