#!/usr/bin/env python3
"""Markdown table of the seeded changes under /verif/seeded (from their meta.json)."""
import glob
import json
import os
import re

VERIF = os.path.dirname(os.path.dirname(os.path.abspath(__file__)))
rows = []
for mf in sorted(glob.glob(os.path.join(VERIF, "seeded", "*", "meta.json"))):
    m = json.load(open(mf))
    notes = m.get("needs_to_manifest", "")
    first = ""
    for ln in notes.splitlines():
        ln = ln.strip(" #*-")
        if len(ln) > 25 and not ln.lower().startswith(("seed", "notes", "c0", "c1")):
            first = ln
            break
    first = re.sub(r"\s+", " ", first)[:170]
    own = "yes" if m.get("detected_by_own_property_check") else "NO"
    rows.append(f"| {m['id']} | {m['property']} | {first} | {own} | {', '.join(m.get('detected_by', []))} | {'yes' if m.get('confirmed') else 'no'} |")
print("| seed | property | what the change is (from the author's notes) | caught by its own check | caught by (quick checks run) | confirmed |")
print("|---|---|---|---|---|---|")
print("\n".join(rows))
