#!/usr/bin/env python3
"""Evaluate a batch of ordinary mutants written for one property: for each m<K>.diff in <dir>, apply it to a scratch worktree of /repo,
confirm it (pinned suite unchanged, demo<K>.py exits 1 with / 0 without), run the property's quick check against it, record the outcome under
/verif/seeded/plain/<id>-m<K>/.   usage: mutant_eval.py <id e.g. C01-i> <property id> <dir with m*.diff demo*.py> [extra checks for all mutants ...] [m<K>=Cxx,Cyy ...]
(m<K>=... names further checks for mutant K only: the checks of the properties whose clause that mutant breaks)"""
import json
import os
import re
import shutil
import subprocess
import sys
import tempfile

VERIF = os.path.dirname(os.path.dirname(os.path.abspath(__file__)))


def sh(cmd, **kw):
    return subprocess.run(cmd, shell=True, capture_output=True, text=True, **kw)


def pytest_counts(wt):
    p = sh(f"cd {wt} && /venv/bin/python -m pytest -q -p no:cacheprovider tests 2>&1 | tail -15")
    m = re.search(r"(\d+) failed.*?(\d+) passed", p.stdout)
    return [int(m.group(1)), int(m.group(2))] if m else None, sorted(re.findall(r"FAILED.*?(tests/\S+)", p.stdout))


def demo(wt, path):
    d = tempfile.mkdtemp(prefix="mut-demo-")
    p = sh(f"cd {d} && PYTHONPATH={wt} timeout 300 /venv/bin/python {path}")
    shutil.rmtree(d, ignore_errors=True)
    return p.returncode, (p.stdout + p.stderr)[-500:]


def main():
    sid, prop, src = sys.argv[1:4]
    checks = [prop] + [a for a in sys.argv[4:] if "=" not in a]
    per_mutant = {a.split("=")[0]: a.split("=")[1].split(",") for a in sys.argv[4:] if "=" in a}
    wt = tempfile.mkdtemp(prefix="mut-wt-")
    os.rmdir(wt)
    sh(f"git -C /repo worktree add --detach {wt} HEAD -f")
    base_counts, base_failed = pytest_counts(wt)
    try:
        for k in range(1, 9):  # up to eight mutants per batch
            diff = os.path.join(src, f"m{k}.diff")
            dm = os.path.join(src, f"demo{k}.py")
            if not (os.path.exists(diff) and os.path.exists(dm)):
                continue
            meta = {"id": f"{sid}-m{k}", "property": prop, "kind": "ordinary mutant", "worktree_base": sh(f"git -C {wt} rev-parse HEAD").stdout.strip()}
            rc0, _ = demo(wt, dm)
            if sh(f"git -C {wt} apply {os.path.abspath(diff)}").returncode != 0:
                meta["confirmed"] = False
                meta["why"] = "patch does not apply"
            else:
                counts, failed = pytest_counts(wt)
                rc1, out1 = demo(wt, dm)
                meta["confirmation"] = {"tests_with_mutant": counts, "tests_without": base_counts, "same_failing_tests": failed == base_failed,
                                        "demo_exit_with": rc1, "demo_exit_without": rc0, "demo_output_with": out1}
                meta["confirmed"] = counts == base_counts and failed == base_failed and rc1 == 1 and rc0 == 0
                results = {}
                if meta["confirmed"]:
                    outdir = tempfile.mkdtemp(prefix="mut-out-")
                    for pid in checks + per_mutant.get(f"m{k}", []):
                        env = dict(os.environ, VERIF_REPO=wt, VERIF_OUT=outdir, VERIF_SEED=os.environ.get("VERIF_SEED", "0"))
                        q = subprocess.run([os.path.join(VERIF, "check"), pid, "--tier", "quick"], env=env, capture_output=True, text=True, timeout=3600)
                        results[pid] = {"exit": q.returncode, "violation_signatures": re.findall(r"^  -- (.*)$", q.stdout, re.M)[:5],
                                        **({"stderr": (q.stdout + q.stderr)[-600:]} if q.returncode == 2 else {})}
                    shutil.rmtree(outdir, ignore_errors=True)
                meta["checks_run"] = results
                meta["detected_by"] = sorted(p for p, r in results.items() if r["exit"] == 1)
                meta["detected_by_own_property_check"] = results.get(prop, {}).get("exit") == 1
            sh(f"git -C {wt} checkout -- .")
            dst = os.path.join(VERIF, "seeded", "plain", meta["id"])
            os.makedirs(dst, exist_ok=True)
            shutil.copy(diff, os.path.join(dst, "patch.diff"))
            shutil.copy(dm, os.path.join(dst, "demo.py"))
            with open(os.path.join(dst, "meta.json"), "w") as f:
                json.dump(meta, f, indent=1)
            print(meta["id"], "confirmed" if meta.get("confirmed") else "NOT CONFIRMED", "detected by", meta.get("detected_by"), flush=True)
    finally:
        sh(f"git -C /repo worktree remove --force {wt}")
        sh("git -C /repo worktree prune")


if __name__ == "__main__":
    main()
