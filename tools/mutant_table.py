#!/usr/bin/env python3
"""Summarise /verif/seeded/plain/*/meta.json: per round, how many ordinary mutants were confirmed, caught by their own property's check,
caught by another check only, or by none."""
import glob
import json
import os
import collections

rows = collections.defaultdict(lambda: collections.Counter())
missed = []
for f in sorted(glob.glob(os.path.join(os.path.dirname(os.path.dirname(os.path.abspath(__file__))), "seeded", "plain", "*", "meta.json"))):
    m = json.load(open(f))
    rnd = m["id"].split("-")[1]
    c = rows[rnd]
    c["total"] += 1
    if not m.get("confirmed"):
        c["not confirmed"] += 1
        continue
    c["confirmed"] += 1
    if m.get("detected_by_own_property_check"):
        c["own check"] += 1
    elif m.get("detected_by"):
        c["another check only"] += 1
    else:
        c["none of the checks run"] += 1
        missed.append(m["id"])
for rnd, c in sorted(rows.items()):
    print(rnd, dict(c))
print("not detected by the checks that were run:", missed)
