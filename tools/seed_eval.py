#!/usr/bin/env python3
"""Evaluate a seeded change: confirm it (tests unchanged, demo fails with / passes without), run the quick checks
against a scratch worktree that carries it (VERIF_REPO), record which checks report a VIOLATION, and store it under
/verif/seeded/<id>/.   usage: seed_eval.py <seed-id> <worktree-with-change> <dir with patch.diff demo.py notes.md> <property> [checks...]"""
import concurrent.futures as cf
import json
import os
import re
import shutil
import subprocess
import sys
import tempfile

VERIF = os.path.dirname(os.path.dirname(os.path.abspath(__file__)))
ALL = ["C%02d" % i for i in range(1, 20)]


def sh(cmd, **kw):
    return subprocess.run(cmd, shell=True, capture_output=True, text=True, **kw)


def pytest_counts(wt):
    p = sh(f"cd {wt} && /venv/bin/python -m pytest -q -p no:cacheprovider tests 2>&1 | tail -15")
    m = re.search(r"(\d+) failed.*?(\d+) passed", p.stdout)
    failed = sorted(re.findall(r"FAILED.*?(tests/\S+)", p.stdout))
    return (int(m.group(1)), int(m.group(2))) if m else None, failed


def demo(wt, demo_py):
    d = tempfile.mkdtemp(prefix="seed-demo-")
    p = sh(f"cd {d} && PYTHONPATH={wt} timeout 300 /venv/bin/python {demo_py}")
    shutil.rmtree(d, ignore_errors=True)
    return p.returncode, (p.stdout + p.stderr)[-800:]


def main():
    sid, wt, src, prop = sys.argv[1:5]
    checks = sys.argv[5:] or ALL
    meta = {"id": sid, "property": prop, "worktree_base": sh(f"git -C {wt} rev-parse HEAD").stdout.strip()}
    patch = open(os.path.join(src, "patch.diff")).read()
    # 1. confirmation
    counts_with, failed_with = pytest_counts(wt)
    rc_with, out_with = demo(wt, os.path.join(src, "demo.py"))
    # (git stash is shared between worktrees of one repository: use apply -R / apply on this worktree only)
    pf = os.path.abspath(os.path.join(src, "patch.diff"))
    r = sh(f"git -C {wt} apply -R {pf}")
    if r.returncode != 0:
        print("cannot reverse the patch:", r.stderr)
        sys.exit(2)
    try:
        counts_without, failed_without = pytest_counts(wt)
        rc_without, out_without = demo(wt, os.path.join(src, "demo.py"))
    finally:
        sh(f"git -C {wt} apply {pf}")
    meta["confirmation"] = {"tests_with_change": counts_with, "tests_without_change": counts_without, "same_failing_tests": failed_with == failed_without,
                            "demo_exit_with_change": rc_with, "demo_exit_without_change": rc_without, "demo_output_with_change": out_with}
    ok = counts_with == counts_without and failed_with == failed_without and rc_with == 1 and rc_without == 0
    meta["confirmed"] = ok
    print("confirmed" if ok else "NOT CONFIRMED", meta["confirmation"])
    # 2. run the checks against the changed tree
    outdir = tempfile.mkdtemp(prefix="seed-out-")
    results = {}

    def run(pid):
        env = dict(os.environ, VERIF_REPO=wt, VERIF_OUT=outdir, VERIF_SEED=os.environ.get("VERIF_SEED", "0"))
        p = subprocess.run([os.path.join(VERIF, "check"), pid, "--tier", "quick"], env=env, capture_output=True, text=True, timeout=3600)
        sigs = re.findall(r"^  -- (.*)$", p.stdout, re.M)
        return pid, p.returncode, sigs[:6], p.stderr[-500:] if p.returncode == 2 else ""
    with cf.ThreadPoolExecutor(max_workers=3) as ex:
        for pid, rc, sigs, err in ex.map(run, checks):
            results[pid] = {"exit": rc, "violation_signatures": sigs, **({"stderr": err} if err else {})}
            print(pid, rc, sigs[:2])
    shutil.rmtree(outdir, ignore_errors=True)
    meta["checks_run"] = {"command": "VERIF_REPO=<scratch worktree with the patch> ./check <id> --tier quick", "results": results}
    meta["detected_by"] = sorted(p for p, r in results.items() if r["exit"] == 1)
    meta["detected_by_own_property_check"] = results.get(prop, {}).get("exit") == 1
    dst = os.path.join(VERIF, "seeded", sid)
    os.makedirs(dst, exist_ok=True)
    with open(os.path.join(dst, "patch.diff"), "w") as f:
        f.write(patch)
    shutil.copy(os.path.join(src, "demo.py"), os.path.join(dst, "demo.py"))
    if os.path.exists(os.path.join(src, "notes.md")):
        meta["needs_to_manifest"] = open(os.path.join(src, "notes.md")).read()
    with open(os.path.join(dst, "meta.json"), "w") as f:
        json.dump(meta, f, indent=1)
    print("detected by:", meta["detected_by"])


if __name__ == "__main__":
    main()
