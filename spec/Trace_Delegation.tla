------------------------ MODULE Trace_Delegation ------------------------
(* Trace validation for verify_delegation: logged calls are explained by Delegation's own stage actions. *)
EXTENDS Delegation, IOUtils

Traces == JsonDeserialize(IOEnv.TRACE_FILE)
VARIABLES tid, l, phase
tvars == <<vars, tid, l, phase>>
Ev == Traces[tid].events[l]

CaseOf(ev) == [role |-> ev.role, trule |-> [keys |-> SeqToSet(ev.trule.keys), thr |-> ev.trule.thr], drule |-> TRUE,
               ukind |-> ev.ukind, utype |-> ev.utype, argbad |-> ev.argbad, twf |-> ev.twf, uenv |-> ev.uenv, uwf |-> 0,
               gpg |-> ev.gpg, sigs |-> SigsFromEntries(ev.entries)]

TInit == /\ tid \in DOMAIN Traces /\ l = 1 /\ phase = "idle"
         /\ case = [role |-> "root", trule |-> None, drule |-> TRUE, ukind |-> "plain", utype |-> "-", argbad |-> "none",
                    twf |-> 0, uenv |-> 0, uwf |-> 0, gpg |-> FALSE, sigs |-> [n \in Names |-> Absent]]
         /\ pc = "idle" /\ outcome = "none"
Begin == /\ phase = "idle" /\ l <= Len(Traces[tid].events)
         /\ case' = CaseOf(Ev) /\ pc' = "ArgCheck" /\ outcome' = "none"
         /\ phase' = "run" /\ UNCHANGED <<tid, l>>
Step  == phase = "run" /\ pc # "done" /\ Next /\ UNCHANGED <<tid, l, phase>>
End   == /\ phase = "run" /\ pc = "done"
         /\ PrintT("@@" \o ToJson([tid |-> Traces[tid].id, l |-> l, ok |-> Ev.outcome \in Allowed(case),
                                   allowed |-> Allowed(case), predicted |-> outcome,
                                   mismatch |-> TypeMismatch(case), unknown |-> Unknown(case), meets |-> MeetsRule(case),
                                   argsok |-> ArgsOK(case)]))
         /\ l' = l + 1 /\ phase' = "idle" /\ UNCHANGED <<vars, tid>>
TNext == Begin \/ Step \/ End
=============================================================================
