-------------------------------- MODULE Gpg --------------------------------
(***************************************************************************)
(* OpenPGP v4 signature framing (C10), RFC 4880 section 5.2.4: the bytes   *)
(* that are hashed (SHA-256) and then signed with ed25519 are              *)
(*    data \o hashed-header \o <<0x04, 0xFF>> \o BE32(Len(hashed-header))  *)
(* plus six impostor framings an implementation could confuse it with.     *)
(* TLC checks on a bounded byte domain that the RFC framing is injective   *)
(* in (data, header) - so the symbolic "valid iff same payload and same    *)
(* header" of CCTTypes is justified - and decides for every impostor and   *)
(* header length whether it genuinely differs from the RFC framing.        *)
(***************************************************************************)
EXTENDS Naturals, Sequences, FiniteSets, TLC, Json

CONSTANTS MUTANT

Byte(n, i) == (n \div (256 ^ i)) % 256
BE32(n) == <<Byte(n, 3), Byte(n, 2), Byte(n, 1), Byte(n, 0)>>
LE32(n) == <<Byte(n, 0), Byte(n, 1), Byte(n, 2), Byte(n, 3)>>
BE16(n) == <<Byte(n, 1), Byte(n, 0)>>
Framings == {"rfc", "notrailer", "nolength", "le32", "be16", "v3", "hdrfirst"}
Trailer(f, n) == CASE f = "rfc" -> <<4, 255>> \o BE32(n)
                   [] f = "notrailer" -> <<>>
                   [] f = "nolength" -> <<4, 255>>
                   [] f = "le32" -> <<4, 255>> \o LE32(n)
                   [] f = "be16" -> <<4, 255>> \o BE16(n)
                   [] f = "v3" -> <<3, 255>> \o BE32(n)
                   [] f = "hdrfirst" -> <<4, 255>> \o BE32(n)
DigestInputF(f, data, hdr) == (IF f = "hdrfirst" THEN hdr \o data ELSE data \o hdr) \o Trailer(f, Len(hdr))
DigestInput(data, hdr) == DigestInputF(IF MUTANT \in Framings THEN MUTANT ELSE "rfc", data, hdr)

(* bounded byte domain: the trailer's own bytes are in the alphabet so that confusion is possible *)
Alphabet == {0, 2, 4, 255}
SeqsUpTo(n) == UNION {[1..k -> Alphabet] : k \in 0..n}
DataDom == SeqsUpTo(2)
HdrDom == SeqsUpTo(2)
Injective == \A d1 \in DataDom, h1 \in HdrDom, d2 \in DataDom, h2 \in HdrDom :
               DigestInput(d1, h1) = DigestInput(d2, h2) => (d1 = d2 /\ h1 = h2)
ASSUME Injective

(* The digest is SHA-256 whatever the hashed header says: its hash-algorithm octet is opaque signed data, so a signature over  *)
(* any other algorithm's digest of the same framed bytes is a signature over a different message.                          *)
HashAlgos == {"sha256", "sha1", "sha224", "sha384", "sha512", "sha3_256", "sha3_512", "md5"}
HeaderNames == {"sha256", "same", "none"}     \* what the header's hash-algorithm octet names: SHA-256, the algorithm used, or the header is not of that shape
HashCounts(algo, named) == algo = (IF MUTANT = "header_selects_hash" /\ named = "same" THEN algo ELSE "sha256")
HashRule == \A a \in HashAlgos, x \in HeaderNames : HashCounts(a, x) <=> a = "sha256"
HeaderLengths == {0, 1, 2, 6, 35, 255, 256, 257, 65535, 65536, 70000, 16777216, 16843009}
VARIABLES kind, f, n, d, h, pc
vars == <<kind, f, n, d, h, pc>>
Init == /\ pc = "new"
        /\ \/ (kind = "table" /\ f \in Framings /\ n \in HeaderLengths /\ d = <<>> /\ h = <<>>)
           \/ (kind = "digest" /\ f \in Framings /\ n = 0 /\ d \in DataDom /\ h \in HdrDom)
           \/ (kind = "hash" /\ f \in HashAlgos /\ n = 0 /\ d = <<>> /\ h \in {<<x>> : x \in HeaderNames})
(* does the impostor coincide with the RFC framing for this header length (for data, header that do not commute)? *)
SameAsRfc == f # "hdrfirst" /\ Trailer(f, n) = Trailer("rfc", n)
Emit == /\ pc = "new" /\ pc' = "done" /\ UNCHANGED <<kind, f, n, d, h>>
        /\ PrintT("@@" \o ToJson(IF kind = "hash" THEN [kind |-> kind, hash |-> f, named |-> h[1], counts |-> HashCounts(f, h[1])] ELSE IF kind = "table"
                                   THEN [kind |-> kind, framing |-> f, hdrlen |-> n, same_as_rfc |-> SameAsRfc, trailer |-> Trailer(f, n)]
                                   ELSE [kind |-> kind, framing |-> f, data |-> d, hdr |-> h, bytes |-> DigestInputF(f, d, h)]))
Next == Emit
(* small-domain confirmation that hdrfirst differs exactly when data and header do not commute *)
HdrFirstDiffers == \A dd \in SeqsUpTo(2), hh \in SeqsUpTo(2) :
                     (DigestInputF("hdrfirst", dd, hh) = DigestInputF("rfc", dd, hh)) <=> (dd \o hh = hh \o dd)
ASSUME HdrFirstDiffers
TrailerLen == kind = "hash" \/ Len(Trailer("rfc", n)) = 6
HashInv == kind = "hash" => (HashCounts(f, h[1]) <=> f = "sha256")
=============================================================================
