----------------------------- MODULE Builders -----------------------------
(***************************************************************************)
(* metadata_construction.build_delegating_metadata / build_root_metadata   *)
(* (C16) over argument CLASSES, composed with the schema (SchemaReq).      *)
(* Each argument is either left at its default or given as one of the      *)
(* classes of the corresponding schema field.  The requirement: an         *)
(* argument error iff some argument is outside its grammar; otherwise the  *)
(* result carries the arguments verbatim and (for supported types) is      *)
(* accepted by the schema once wrapped.                                    *)
(***************************************************************************)
EXTENDS SchemaReq, Json

CONSTANTS MaxCorrupt
VARIABLES case, pc
vars == <<case, pc>>

ArgFields == <<"type", "deleg", "ver", "ts", "exp">>
Default == "default"
ArgClasses(f) ==
  CASE f = "type"  -> {"root", "key_mgr", "unsupported", "nonstr"}        \* any string is a legal type for the builder
    [] f = "deleg" -> {Default} \cup (ClassesOf("deleg") \ {"missing"})
    [] f = "ver"   -> {Default} \cup (ClassesOf("ver") \ {"absent"})
    [] f = "ts"    -> {Default} \cup (ClassesOf("ts") \ {"absent"})
    [] f = "exp"   -> {Default} \cup (ClassesOf("exp") \ {"missing"})
(* the builder's own argument grammar: the schema's per-field verdict, except that the type may be any string *)
ArgVerdict(f, c) ==
  IF c = Default THEN A
  ELSE IF f = "type" THEN (IF c = "nonstr" THEN R ELSE A)
  ELSE FieldVerdict(f, c)
CallVerdict(c) == Combine({ArgVerdict(ArgFields[i], c[ArgFields[i]]) : i \in DOMAIN ArgFields})
(* the document the builder must return, as a schema document (defaults filled in) *)
Built(c) == [env |-> "ok", signedkind |-> "dict", sigvals |-> "none", type |-> c.type, spec |-> "ok",
             deleg |-> IF c.deleg = Default THEN "empty" ELSE c.deleg,
             exp |-> IF c.exp = Default THEN "ok" ELSE c.exp,
             ts |-> IF c.ts = Default THEN "ok" ELSE c.ts,
             ver |-> IF c.ver = Default THEN "ok1" ELSE c.ver]
Allowed(c) == IF CallVerdict(c) = R THEN {"ArgumentError"} ELSE IF CallVerdict(c) = U THEN {"ArgumentError", "built"} ELSE {"built"}

(* root builder: version, two key lists, two thresholds, timestamps; it always delegates root and key_mgr *)
RootArgClasses(f) ==
  CASE f = "rkeys" -> {"ok", "empty", "key_upper", "key_dup", "key_nonstr", "keys_not_list"}
    [] f = "rthr"  -> {"ok", "thr_gt_keys", "thr_zero", "thr_neg", "thr_frac", "thr_str", "thr_inf", "thr_nan", "thr_bool", "thr_intfloat", "thr_null"}
    [] f = "kkeys" -> {"ok", "empty", "key_short", "key_dup"}
    [] f = "kthr"  -> {"ok", "thr_zero", "thr_inf", "thr_huge"}
RootArgVerdict(c) ==
  IF c \in {"ok", "empty", "thr_gt_keys", "thr_huge"} THEN A ELSE IF c \in {"thr_bool", "thr_intfloat"} THEN U ELSE R
RootCallVerdict(c) == Combine({RootArgVerdict(c.rkeys), RootArgVerdict(c.rthr), RootArgVerdict(c.kkeys), RootArgVerdict(c.kthr),
                               ArgVerdict("ver", c.ver), ArgVerdict("ts", c.ts), ArgVerdict("exp", c.exp)})
RootAllowed(c) == IF RootCallVerdict(c) = R THEN {"ArgumentError"} ELSE IF RootCallVerdict(c) = U THEN {"ArgumentError", "built"} ELSE {"built"}

(* The clock: default dates are read from it.  Whatever the instant (leap days, month and year ends, the last second of a day, the      *)
(* epoch, 2038, the last years four digits can hold), the default timestamp is that instant and the default expiration lies one year  *)
(* later: 365 or 366 days (a fixed distance and "same date next year" both qualify), never less, never more.                          *)
IsLeap(y) == (y % 4 = 0 /\ y % 100 # 0) \/ y % 400 = 0
DaysIn(y, m) == IF m = 2 THEN (IF IsLeap(y) THEN 29 ELSE 28) ELSE IF m \in {4, 6, 9, 11} THEN 30 ELSE 31
ClockYears == {1970, 1999, 2000, 2023, 2024, 2027, 2028, 2037, 2038, 2099, 2100, 9997, 9998}
ClockDays == {<<1, 1>>, <<2, 28>>, <<2, 29>>, <<3, 1>>, <<6, 15>>, <<12, 30>>, <<12, 31>>}
ClockSeconds == {0, 1, 43200, 86399}
ExpiryWindow == IF MUTANT = "expiry_any" THEN 1..366 ELSE 365..366
ExpiryAboutOneYear == \A d \in ExpiryWindow : d >= 365 /\ d <= 366

Init == /\ pc = "new"
        /\ \/ \E y \in ClockYears, md \in ClockDays, sec \in ClockSeconds :
                /\ md[2] <= DaysIn(y, md[1])
                /\ case = [fn |-> "clock", y |-> y, m |-> md[1], d |-> md[2], s |-> sec]
           \/ \E ty \in ArgClasses("type"), dg \in ArgClasses("deleg"), v \in ArgClasses("ver"), t \in ArgClasses("ts"), e \in ArgClasses("exp") :
                /\ Cardinality({x \in {dg, v, t, e} : x \notin {Default, "ok", "ok1", "two_ok", "empty"}}) <= MaxCorrupt   \* bound on simultaneously corrupted arguments
                /\ case = [fn |-> "deleg", type |-> ty, deleg |-> dg, ver |-> v, ts |-> t, exp |-> e]
           \/ \E rk \in RootArgClasses("rkeys"), rt \in RootArgClasses("rthr"), kk \in RootArgClasses("kkeys"), kt \in RootArgClasses("kthr"),
                 v \in {"ok1", "ok_huge", "zero", "inf", "str", "bool"}, t \in {Default, "ok", "noZ", "nonstr"}, e \in {Default, "ok", "trailing"} :
                case = [fn |-> "root", rkeys |-> rk, rthr |-> rt, kkeys |-> kk, kthr |-> kt, ver |-> v, ts |-> t, exp |-> e]
Emit == /\ pc = "new" /\ pc' = "done" /\ UNCHANGED case
        /\ PrintT("@@" \o ToJson(IF case.fn = "clock" THEN [case |-> case, allowed |-> {"built"}, min_days |-> 365, max_days |-> 366,
                                                             leap |-> IsLeap(case.y), next_leap |-> IsLeap(case.y + 1)]
                                   ELSE IF case.fn = "deleg"
                                   THEN [case |-> case, allowed |-> Allowed(case), built |-> Built(case),
                                         checker |-> IF CallVerdict(case) = A THEN Accepts(Built(case)) ELSE "n/a"]
                                   ELSE [case |-> case, allowed |-> RootAllowed(case)]))
Next == Emit

(* whatever the builder returns for well-formed arguments of a supported type passes the schema *)
ClockInv == case.fn = "clock" => ExpiryAboutOneYear
BuiltIsValid == (case.fn = "deleg" /\ CallVerdict(case) = A /\ case.type \in {"root", "key_mgr"}) => Accepts(Built(case)) = A
(* and nothing else does: a corrupted argument can never yield schema-valid metadata *)
CorruptNeverValid == (case.fn = "deleg" /\ CallVerdict(case) = R /\ case.type # "nonstr") => Accepts(Built(case)) = R
=============================================================================
