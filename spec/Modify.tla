------------------------------- MODULE Modify -------------------------------
(***************************************************************************)
(* cli.interactive_modify_metadata (the "modify-metadata" subcommand) as a *)
(* state machine over scripted console input (growth plan, section 11).    *)
(*                                                                         *)
(* The loop works on a deep copy of the metadata it is given: menu choice  *)
(* 7 changes the threshold of a named delegation (integer >= 1), choice 2  *)
(* adds a signature by a private key over the working copy AS IT IS THEN,  *)
(* choice 0 asks for a file name, writes the canonical working copy and    *)
(* ends, choice 1 ends without writing, the unimplemented choices 3-6, 8,  *)
(* 9 and every invalid entry change nothing.                               *)
(***************************************************************************)
EXTENDS Naturals, Sequences, FiniteSets, TLC, Json

CONSTANTS Depth, MUTANT
Roles == {"root", "key_mgr"}
Keys == {1, 2, 3}        \* 1, 2: private key values typed in (raw signatures); 3: an OpenPGP key named by its fingerprint (signed through the gpg path)
Thr == 1..3

VARIABLES orig,      \* thresholds of the metadata object passed in (must never change)
          work,      \* thresholds of the working copy
          sigs,      \* key -> the CONTENT (thresholds) of the working copy the signature was made over (NoSig = none): a signature counts
                     \* again when later edits bring the working copy back to exactly that content
          file,      \* what has been written: [thr, sigs] or NoFile
          done, hist
vars == <<orig, work, sigs, file, done, hist>>

NoFile == [written |-> FALSE, thr |-> [r \in Roles |-> 0], valid |-> {}]
NoSig == [r \in Roles |-> 0]
ValidSigners == {k \in Keys : sigs[k] = work}              \* signatures made over the current content

Init == /\ orig \in [Roles -> {1, 2}] /\ work = orig /\ sigs = [k \in Keys |-> NoSig]
        /\ file = NoFile /\ done = FALSE /\ hist = <<>>

Log(x) == hist' = Append(hist, x)
SetThreshold(role, t) ==
  /\ ~done /\ role \in Roles /\ t \in Thr
  /\ work' = [work EXCEPT ![role] = t]
  /\ orig' = IF MUTANT = "no_copy" THEN [orig EXCEPT ![role] = t] ELSE orig
  /\ Log([op |-> "thresh", role |-> role, value |-> t]) /\ UNCHANGED <<sigs, file, done>>
BadThreshold(role, v) ==           \* unknown delegation, or a value that is not an integer >= 1
  /\ ~done /\ Log([op |-> "thresh_bad", role |-> role, value |-> v]) /\ UNCHANGED <<orig, work, sigs, file, done>>
AddSig(k) ==
  /\ ~done /\ sigs' = [sigs EXCEPT ![k] = work]
  /\ Log([op |-> "addsig", key |-> k]) /\ UNCHANGED <<orig, work, file, done>>
BadKey == /\ ~done /\ Log([op |-> "addsig_bad"]) /\ UNCHANGED <<orig, work, sigs, file, done>>
Noop(c) == /\ ~done /\ Log([op |-> "noop", choice |-> c]) /\ UNCHANGED <<orig, work, sigs, file, done>>
Write == /\ ~done /\ done' = TRUE
         /\ file' = [written |-> TRUE, thr |-> work, valid |-> ValidSigners]
         /\ Log([op |-> "write"]) /\ UNCHANGED <<orig, work, sigs>>
Abort == /\ ~done /\ done' = TRUE /\ Log([op |-> "abort"]) /\ UNCHANGED <<orig, work, sigs, file>>

Next == /\ Len(hist) < Depth
        /\ \/ \E r \in Roles, t \in Thr : SetThreshold(r, t)
           \/ \E x \in {<<"root", "0">>, <<"root", "x">>, <<"nosuchrole", "2">>} : BadThreshold(x[1], x[2])
           \/ \E k \in Keys : AddSig(k)
           \/ BadKey \/ \E c \in {"3", "x"} : Noop(c)
           \/ Write \/ Abort
Spec == Init /\ [][Next]_vars

OriginalUntouched == [][orig' = orig]_vars
AbortWritesNothing == (done /\ hist[Len(hist)].op = "abort") => ~file.written
WrittenIsWorkingCopy == file.written => (file.thr = work /\ file.valid = ValidSigners)
Emit == (done \/ Len(hist) = Depth) => PrintT("@@" \o ToJson([init |-> orig, script |-> hist, final |-> [thr |-> work, valid |-> ValidSigners, written |-> file.written]]))
=============================================================================
