------------------------------- MODULE Calls -------------------------------
(***************************************************************************)
(* Purity of validation and verification (C12): calls over a shared pool   *)
(* of objects, by two threads, interleaved with caller-side mutations and  *)
(* wrap operations.                                                        *)
(*                                                                         *)
(* heap     : address -> [val, child]; a payload is two levels deep so     *)
(*            that a shallow copy is distinguishable from a deep one       *)
(* envelopes: name -> [payload address, sigs : key -> payload VALUE the    *)
(*            signature was made over (0 = none)]                          *)
(* frame[t] : the call thread t is executing: arguments, snapshot of the   *)
(*            argument VALUES at Begin (ghost), local accumulator, pc      *)
(* A verifier call is Begin, one Step per signature entry, Decide, End.    *)
(***************************************************************************)
EXTENDS Naturals, Sequences, FiniteSets, TLC, Json

CONSTANTS Threads, Keys, MaxOps, MUTANT, History

Addr == 1..6
Envs == {"E1", "E2"}
Vals == 1..2

VARIABLES heap, env, frame, shared, cache, results, nops, hist
vars == <<heap, env, frame, shared, cache, results, nops, hist>>

(* value of a payload = value of its root and of its child (deep value) *)
DeepVal(a) == <<heap[a].val, IF heap[a].child = 0 THEN 0 ELSE heap[heap[a].child].val>>
Reach(a) == {a} \cup (IF heap[a].child = 0 THEN {} ELSE {heap[a].child})
Idle == [active |-> FALSE, e |-> "E1", thr |-> 1, snap |-> <<0, 0>>, snapsigs |-> [k \in Keys |-> <<0, 0>>], todo |-> {}, good |-> {}, pc |-> "idle"]

(* the verdict as a FUNCTION of the argument values *)
F(pv, sigs, thr) == IF Cardinality({k \in Keys : sigs[k] = pv}) >= thr THEN "accept" ELSE "SignatureError"

Init == /\ heap = [a \in Addr |-> IF a = 1 THEN [val |-> 1, child |-> 2] ELSE IF a = 2 THEN [val |-> 1, child |-> 0]
                                  ELSE IF a = 3 THEN [val |-> 1, child |-> 4] ELSE IF a = 4 THEN [val |-> 1, child |-> 0]
                                  ELSE [val |-> 0, child |-> 0]]
        /\ env = [n \in Envs |-> IF n = "E1" THEN [p |-> 1, sigs |-> [k \in Keys |-> <<1, 1>>]]        \* fully signed over the current value
                                 ELSE [p |-> 3, sigs |-> [k \in Keys |-> <<0, 0>>]]]                 \* unsigned
        /\ frame = [t \in Threads |-> Idle] /\ shared = {} /\ cache = {} /\ results = <<>> /\ nops = 0 /\ hist = <<>>

H(rec) == IF History THEN Append(hist, rec) ELSE hist
NoneActive == \A t \in Threads : ~frame[t].active

Begin(t, e, thr) ==
  /\ ~frame[t].active /\ nops < MaxOps
  /\ frame' = [frame EXCEPT ![t] = [active |-> TRUE, e |-> e, thr |-> thr, snap |-> DeepVal(env[e].p), snapsigs |-> env[e].sigs,
                                    todo |-> Keys, good |-> IF MUTANT = "shared_accumulator" THEN shared ELSE {}, pc |-> "loop"]]
  /\ nops' = nops + 1 /\ hist' = H([a |-> "begin", t |-> t, e |-> e, thr |-> thr])
  /\ UNCHANGED <<heap, env, shared, cache, results>>

(* one loop iteration: examine key k's entry against the payload as it is NOW in the heap *)
Step(t, k) ==
  /\ frame[t].active /\ frame[t].pc = "loop" /\ k \in frame[t].todo
  /\ LET e == frame[t].e
         valid == IF MUTANT = "verdict_cache" /\ <<k, env[e].sigs[k]>> \in cache THEN TRUE
                  ELSE env[e].sigs[k] = DeepVal(env[e].p)
     IN /\ frame' = [frame EXCEPT ![t].todo = @ \ {k}, ![t].good = IF valid THEN @ \cup {k} ELSE @]
        /\ shared' = IF MUTANT = "shared_accumulator" /\ valid THEN shared \cup {k} ELSE shared
        /\ cache' = IF MUTANT = "verdict_cache" /\ valid THEN cache \cup {<<k, env[e].sigs[k]>>} ELSE cache
  /\ hist' = H([a |-> "step", t |-> t, k |-> k])
  /\ UNCHANGED <<heap, env, results, nops>>

End(t) ==
  /\ frame[t].active /\ frame[t].pc = "loop" /\ frame[t].todo = {}
  /\ LET g == IF MUTANT = "shared_accumulator" THEN frame[t].good \cup shared ELSE frame[t].good
         out == IF Cardinality(g) >= frame[t].thr THEN "accept" ELSE "SignatureError"
     IN /\ results' = Append(results, [t |-> t, e |-> frame[t].e, thr |-> frame[t].thr, out |-> out,
                                       expected |-> F(frame[t].snap, frame[t].snapsigs, frame[t].thr)])
        /\ hist' = H([a |-> "end", t |-> t, out |-> out, expected |-> F(frame[t].snap, frame[t].snapsigs, frame[t].thr)])
  /\ frame' = [frame EXCEPT ![t] = Idle]
  /\ UNCHANGED <<heap, env, shared, cache, nops>>

(* caller-side mutation of any address, only while no call is in flight *)
Mutate(a, v) ==
  /\ NoneActive /\ nops < MaxOps /\ a \in {1, 2, 3, 4} /\ heap[a].val # v
  /\ heap' = [heap EXCEPT ![a].val = v]
  /\ nops' = nops + 1 /\ hist' = H([a |-> "mutate", addr |-> a, v |-> v])
  /\ UNCHANGED <<env, frame, shared, cache, results>>

(* wrap_as_signable(payload of E1) into E2: a fresh deep copy at addresses 5, 6 *)
Wrap ==
  /\ NoneActive /\ nops < MaxOps /\ env["E2"].p # 5
  /\ heap' = IF MUTANT = "shallow_copy"
               THEN [heap EXCEPT ![5] = [val |-> heap[1].val, child |-> heap[1].child]]
               ELSE [heap EXCEPT ![5] = [val |-> heap[1].val, child |-> 6], ![6] = [val |-> heap[2].val, child |-> 0]]
  /\ env' = [env EXCEPT !["E2"] = [p |-> 5, sigs |-> [k \in Keys |-> <<0, 0>>]]]
  /\ nops' = nops + 1 /\ hist' = H([a |-> "wrap"])
  /\ UNCHANGED <<frame, shared, cache, results>>

(* sign_signable(E2, k): signature over the payload value as it is now *)
Sign(k) ==
  /\ NoneActive /\ nops < MaxOps
  /\ env' = [env EXCEPT !["E2"].sigs[k] = DeepVal(env["E2"].p)]
  /\ nops' = nops + 1 /\ hist' = H([a |-> "sign", k |-> k])
  /\ UNCHANGED <<heap, frame, shared, cache, results>>

Next == \/ \E t \in Threads, e \in Envs, thr \in 1..Cardinality(Keys) : Begin(t, e, thr)
        \/ \E t \in Threads, k \in Keys : Step(t, k)
        \/ \E t \in Threads : End(t)
        \/ \E a \in Addr, v \in Vals : Mutate(a, v)
        \/ Wrap \/ \E k \in Keys : Sign(k)
Spec == Init /\ [][Next]_vars

(* C12 *)
ResultIsFunction == \A i \in DOMAIN results : results[i].out = results[i].expected
Pure == [][(\E t \in Threads : frame[t].active \/ frame'[t].active) => heap' = heap /\ env' = env]_vars
WrapIsolates == env["E2"].p = 5 => Reach(5) \cap Reach(1) = {}
EmitHist == nops < MaxOps \/ ~NoneActive \/ PrintT("@@" \o ToJson(hist))
=============================================================================
