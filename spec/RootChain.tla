---------------------------- MODULE RootChain ----------------------------
(***************************************************************************)
(* The client-side state machine that conda-content-trust defines but does *)
(* not own (C04): a trusted root replaced only by updates verify_root      *)
(* accepts, optionally persisted to N.root.json and reloaded, facing an    *)
(* honest repository that rotates keys and an adversary who holds some     *)
(* keys, replays, rolls back, skips versions and forges content.           *)
(*                                                                         *)
(* A root *content* is [ver, rk, rt, tag]; tag separates honest content    *)
(* from adversarial content with the same rule, so honest signatures never *)
(* transfer to forged content.  An *envelope* is [content, signers]: the   *)
(* set of keys with a valid OpenPGP-mode signature over exactly that       *)
(* content.  The client's decision is RootReq!RootIff - the same operator  *)
(* the verify_root stage machine (Root.tla) is checked against.            *)
(***************************************************************************)
EXTENDS RootReq, Json

CONSTANTS MaxVer, MaxThr, MaxRot, MaxAdv, MUTANT, History, SimDepth

VARIABLES trusted,       \* [content, via]: the client's root; via = ghost: how it got there
          disk,          \* persisted copy of `trusted`, or NoDisk
          head,          \* latest honest content
          published,     \* set of honest envelopes
          adv,           \* compromised keys
          nrot,          \* number of honest rotations so far (bound)
          hadThreshold,  \* ghost: the adversary held a threshold of the client's then-current root keys
          hist           \* history of actions (only when History = TRUE; for behaviour generation)
vars == <<trusted, disk, head, published, adv, nrot, hadThreshold, hist>>

Content(v, rk, rt, tag) == [ver |-> v, rk |-> rk, rt |-> rt, tag |-> tag]
NoVia(kind) == [kind |-> kind, from |-> Content(0, {}, 0, "none"), signers |-> {}]
Link(from, signers) == [kind |-> "link", from |-> from, signers |-> signers]
NoDisk == [content |-> Content(0, {}, 0, "none"), via |-> NoVia("none")]
Initial == Content(1, {1, 2} \cap Key, 1, "h")

(* the client's decision, through the requirement layer of verify_root *)
SigsOf(signers) == [n \in Names |-> IF IsCanonName(n) /\ KeyOf(n) \in signers THEN V("gpg", "self", "P", "gpg", TRUE) ELSE Absent]
DocOfC(c) == Doc("root", c.ver, c.rk, c.rt, TRUE, "ok", 0)
PairOf(t, e) == [t |-> DocOfC(t), n |-> DocOfC(e.content), sigs |-> SigsOf(e.signers)]
Accepts(t, e) ==
  CASE MUTANT = "gt"           -> e.content.ver > t.ver /\ Cardinality(e.signers \cap t.rk) >= t.rt /\ Cardinality(e.signers \cap e.content.rk) >= e.content.rt
    [] MUTANT = "thr_from_new" -> e.content.ver = t.ver + 1 /\ Cardinality(e.signers \cap t.rk) >= e.content.rt /\ Cardinality(e.signers \cap e.content.rk) >= e.content.rt
    [] MUTANT = "keys_from_new"-> e.content.ver = t.ver + 1 /\ Cardinality(e.signers \cap e.content.rk) >= e.content.rt
    [] MUTANT = "noself"       -> e.content.ver = t.ver + 1 /\ Cardinality(e.signers \cap t.rk) >= t.rt
    [] OTHER -> RootIff(PairOf(t, e))
OfferAllowed(t, e) == Allowed(PairOf(t, e))

AdvHas(c) == Cardinality(adv \cap c.rk) >= c.rt
Contents(tag) == {Content(v, rk, rt, tag) : v \in 1..MaxVer, rk \in SUBSET Key, rt \in 1..MaxThr}

(* everything the adversary can put in front of the client *)
AdvEnvelopes ==
  {[content |-> c, signers |-> s] : c \in Contents("a"), s \in SUBSET adv}
  \cup UNION {{[content |-> p.content, signers |-> s] : s \in SUBSET (p.signers \cup adv)} : p \in published}

CanAssemble(e) ==
  \/ /\ e.content.tag = "a" /\ e.signers \subseteq adv
     /\ e.content.ver \in 1..MaxVer /\ e.content.rk \subseteq Key /\ e.content.rt \in 1..MaxThr
  \/ \E p \in published : p.content = e.content /\ e.signers \subseteq p.signers \cup adv

H(rec) == IF History THEN Append(hist, rec) ELSE hist

Init == /\ trusted = [content |-> Initial, via |-> NoVia("init")]
        /\ disk = NoDisk /\ head = Initial /\ published = {} /\ adv = {} /\ nrot = 0
        /\ hadThreshold = FALSE /\ hist = <<>>

(* honest rotation: key rotation, threshold change and revocation are all instances *)
RotOK(rk, rt, sg) == LET c == Content(head.ver + 1, rk, rt, "h") IN
                     rt <= Cardinality(rk) /\ sg \subseteq head.rk \cup rk /\ RootIff(PairOf(head, [content |-> c, signers |-> sg]))
DoRotate(rk, rt, sg) ==
  LET c == Content(head.ver + 1, rk, rt, "h") IN
  /\ nrot < MaxRot /\ head.ver < MaxVer /\ RotOK(rk, rt, sg)
  /\ published' = published \cup {[content |-> c, signers |-> sg]} /\ head' = c /\ nrot' = nrot + 1
  /\ hist' = H([a |-> "rotate", content |-> c, signers |-> sg])
  /\ UNCHANGED <<trusted, disk, adv, hadThreshold>>
HonestRotate == \E rk \in SUBSET Key, rt \in 1..MaxThr, sg \in SUBSET Key : DoRotate(rk, rt, sg)

(* an honest mistake: any new rule, even one nobody can satisfy, signed under the old rule only *)
DoCareless(rk, rt) ==
  LET c == Content(head.ver + 1, rk, rt, "h")
      e == [content |-> c, signers |-> head.rk] IN
  /\ nrot < MaxRot /\ head.ver < MaxVer
  /\ ~RootIff(PairOf(head, e))
  /\ published' = published \cup {e} /\ nrot' = nrot + 1
  /\ hist' = H([a |-> "careless", content |-> c, signers |-> head.rk])
  /\ UNCHANGED <<trusted, disk, head, adv, hadThreshold>>
CarelessRotate == \E rk \in SUBSET Key, rt \in 1..MaxThr : DoCareless(rk, rt)

Compromise(k) ==
  /\ k \notin adv /\ Cardinality(adv) < MaxAdv
  /\ adv' = adv \cup {k}
  /\ hist' = H([a |-> "compromise", key |-> k])
  /\ UNCHANGED <<trusted, disk, head, published, nrot, hadThreshold>>

Offer(e) ==
  /\ hadThreshold' = (hadThreshold \/ AdvHas(trusted.content))      \* evaluated on the PRE-state
  /\ trusted' = IF Accepts(trusted.content, e)
                  THEN [content |-> e.content, via |-> Link(trusted.content, e.signers)]
                  ELSE IF MUTANT = "keep_on_reject" /\ e.content.ver > trusted.content.ver
                         THEN [content |-> e.content, via |-> Link(trusted.content, e.signers)]
                  ELSE trusted
  /\ hist' = H([a |-> "offer", content |-> e.content, signers |-> e.signers,
                allowed |-> OfferAllowed(trusted.content, e), after |-> trusted'.content])
  /\ UNCHANGED <<disk, head, published, adv, nrot>>

(* The adversary also controls the CONTAINER: any content with any signatures may arrive in something that is not a signed       *)
(* envelope (an extra top-level member, a signature section that is not a map, ...).  Such an offer is malformed: the client    *)
(* keeps its root, whatever the content and whoever signed it.                                                                  *)
OfferMalformed(e) ==
  /\ hadThreshold' = (hadThreshold \/ AdvHas(trusted.content))
  /\ trusted' = IF MUTANT = "malformed_installs" THEN [content |-> e.content, via |-> Link(trusted.content, e.signers)] ELSE trusted
  /\ hist' = H([a |-> "offer_malformed", content |-> e.content, signers |-> e.signers,
                allowed |-> {"TypeError", "ValueError"}, after |-> trusted'.content])
  /\ UNCHANGED <<disk, head, published, adv, nrot>>

Persist == /\ disk # trusted /\ disk' = trusted /\ hist' = H([a |-> "persist"])
           /\ UNCHANGED <<trusted, head, published, adv, nrot, hadThreshold>>
Restart == /\ disk # NoDisk /\ trusted' = disk /\ hist' = H([a |-> "restart", after |-> disk.content])
           /\ hadThreshold' = (hadThreshold \/ AdvHas(trusted.content))
           /\ UNCHANGED <<disk, head, published, adv, nrot>>

Next == HonestRotate \/ CarelessRotate \/ (\E k \in Key : Compromise(k)) \/ (\E e \in AdvEnvelopes : Offer(e) \/ OfferMalformed(e)) \/ Persist \/ Restart
Spec == Init /\ [][Next]_vars

(* Behaviour generation (tlc -simulate): every disjunct offers at most one successor, so that the *)
(* simulator's uniform choice mixes action kinds; SimNext => Next, hence every generated behaviour *)
(* is a behaviour of Spec.                                                                         *)
Pick(S) == IF S = {} THEN {} ELSE {RandomElement(S)}
SimNext ==
  \/ \E x \in Pick({y \in (SUBSET Key) \X (1..MaxThr) \X (SUBSET Key) : nrot < MaxRot /\ head.ver < MaxVer /\ RotOK(y[1], y[2], y[3])}) :
        DoRotate(x[1], x[2], x[3])
  \/ \E x \in Pick((SUBSET Key) \X (1..MaxThr)) : DoCareless(x[1], x[2])
  \/ \E k \in Pick(Key \ adv) : Compromise(k)
  \/ \E p \in Pick(published) : \E sg \in Pick(SUBSET (p.signers \cup adv)) : Offer([content |-> p.content, signers |-> sg])   \* replay / strip
  \/ \E p \in Pick({q \in published : q.content.ver = trusted.content.ver + 1}) : Offer(p)                                   \* the honest next root
  \/ \E c \in Pick({d \in Contents("a") : d.ver = trusted.content.ver + 1}) : \E sg \in Pick(SUBSET adv) : Offer([content |-> c, signers |-> sg])
  \/ \E c \in Pick({d \in Contents("a") : d.ver = trusted.content.ver + 1}) : Offer([content |-> c, signers |-> adv])           \* forged successor
  \/ \E c \in Pick(Contents("a")) : Offer([content |-> c, signers |-> adv])                                                   \* skip / rollback
  \/ \E c \in Pick({d \in Contents("a") : d.ver = trusted.content.ver + 1}) : OfferMalformed([content |-> c, signers |-> adv])  \* forged successor in a malformed container
  \/ \E p \in Pick({q \in published : q.content.ver = trusted.content.ver + 1}) : OfferMalformed(p)                           \* even the honest next root
  \/ Persist \/ Restart
EmitBehaviour == Len(hist) < SimDepth \/ PrintT("@@" \o ToJson(hist))
AssembleConsistent == \A e \in AdvEnvelopes : CanAssemble(e)

(* ---------------------------------------------------------------------- *)
HonestContents == {Initial} \cup {p.content : p \in published}
NoTakeover == ~hadThreshold => trusted.content \in HonestContents
NoTakeoverStep ==
  [][(~AdvHas(trusted.content)) =>
       (trusted'.content = trusted.content \/ trusted'.content \in {p.content : p \in published'} \/ trusted' = disk)]_vars
Monotone == [][trusted' = disk \/ trusted'.content.ver \in {trusted.content.ver, trusted.content.ver + 1}]_vars
LinkOK(from, c, signers) == /\ c.ver = from.ver + 1
                            /\ Cardinality(signers \cap from.rk) >= from.rt
                            /\ Cardinality(signers \cap c.rk) >= c.rt
ChainInv == trusted.via.kind = "link" => LinkOK(trusted.via.from, trusted.content, trusted.via.signers)
DiskChainInv == disk.via.kind = "link" => LinkOK(disk.via.from, disk.content, disk.via.signers)
NeverStuck == trusted.content.rt <= Cardinality(trusted.content.rk)
PersistNeutral == [][(disk' # disk => (trusted' = trusted /\ disk' = trusted))]_vars
(* a rejected offer leaves the root untouched; an accepted one installs exactly the offered content *)
OfferEffect == [][trusted' # trusted => (trusted' = disk \/ trusted'.via.from = trusted.content)]_vars
(* availability: a client that was never taken over is never stranded - it is at the honest head, or some published *)
(* honest envelope is the next link it will accept                                                                   *)
(* (with compromised keys an adversary can complete a CARELESS honest envelope - one whose new rule the honest signers *)
(* did not meet - and move the client onto it: found by TLC; that root is still content the then-current root keys  *)
(* signed, so NoTakeover holds, but availability is only claimed while no key is compromised)                       *)
NotStranded == (~hadThreshold /\ adv = {}) =>
                 (trusted.content = head \/ \E p \in published : p.content.ver = trusted.content.ver + 1 /\ Accepts(trusted.content, p))
HistBound == Len(hist) <= 64
=============================================================================
