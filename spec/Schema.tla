------------------------------ MODULE Schema ------------------------------
(***************************************************************************)
(* The delegating-metadata schema (C14) as a three-valued function on      *)
(* documents abstracted to one CLASS per field.  "accept" and "reject" are *)
(* what the property statement fixes; "unspecified" marks classes the      *)
(* statement leaves open (integral floats / booleans as numbers, date      *)
(* spellings that only strptime's tolerance admits, ...): for those both   *)
(* outcomes are allowed and nothing is asserted.                           *)
(***************************************************************************)
EXTENDS SchemaReq, Json

CONSTANTS Pairs     \* TRUE: every pair of mutations; FALSE: single mutations only

(* ------------------------------ enumeration ---------------------------- *)
ValidBases ==
  { [env |-> "ok", signedkind |-> "dict", sigvals |-> sv, type |-> ty, spec |-> "ok", deleg |-> dg, exp |-> "ok", ts |-> t, ver |-> v] :
      sv \in {"none", "gpg_ok"}, ty \in {"root", "key_mgr"}, dg \in {"two_ok", "empty"}, t \in {"absent", "ok"}, v \in {"absent", "ok1", "ok_huge"} }
WFBase(b) == Accepts(b) = A
FieldSet == {Fields[i] : i \in DOMAIN Fields}

VARIABLES doc, muts, pc
vars == <<doc, muts, pc>>
Init == /\ pc = "new"
        /\ \E b \in ValidBases : WFBase(b) /\
             \/ (doc = b /\ muts = <<>>)
             \/ \E f1 \in FieldSet : \E c1 \in ClassesOf(f1) :
                  /\ c1 # b[f1]
                  /\ \/ (doc = [b EXCEPT ![f1] = c1] /\ muts = <<f1>>)
                     \/ (Pairs /\ \E f2 \in FieldSet : \E c2 \in ClassesOf(f2) :
                           f1 # f2 /\ c2 # b[f2] /\ doc = [b EXCEPT ![f1] = c1, ![f2] = c2] /\ muts = <<f1, f2>>)
Emit == /\ pc = "new" /\ pc' = "done" /\ UNCHANGED <<doc, muts>>
        /\ PrintT("@@" \o ToJson([doc |-> doc, muts |-> muts, verdict |-> Accepts(doc), signed_verdict |-> SignedVerdict(doc),
                                   predicted |-> Checker(doc)]))
Next == Emit

(* the checker refines the requirement wherever the requirement is specified *)
Refines == Accepts(doc) # U => Checker(doc) = Accepts(doc)
(* every change that removes a required field or takes a field outside its grammar is rejected *)
MutationRejected == \A i \in DOMAIN muts : FieldVerdict(muts[i], doc[muts[i]]) = R => Checker(doc) = R
(* the envelope's verdict never exceeds the signed part's *)
EnvelopeNoBetter == Accepts(doc) = A => SignedVerdict(doc) = A
BasesAccepted == muts = <<>> => Checker(doc) = A
RootNeedsVersion == (doc.type = "root" /\ doc.ver = "absent") => Checker(doc) = R
NeedsVersionOrTimestamp == (doc.ver = "absent" /\ doc.ts = "absent") => Checker(doc) = R
=============================================================================
