----------------------------- MODULE Formats -----------------------------
(***************************************************************************)
(* Leaf grammars (C15): hex key (64), hex signature (128), OpenPGP         *)
(* fingerprint (40), generic lower-case hex string, raw / OpenPGP          *)
(* signature entries, duplicate-free key lists.                            *)
(*                                                                         *)
(* A string is a sequence of character CLASSES, built from a template:     *)
(* a base of lower-case hex characters of some length with up to two       *)
(* deviations (substitution or insertion of a character of some class at   *)
(* the first / middle / last position).  The grammar predicates are        *)
(* written over the class sequence, exactly as the documented grammar.     *)
(***************************************************************************)
EXTENDS Naturals, Sequences, FiniteSets, TLC, Json

CONSTANTS MUTANT

Classes == {"d", "l", "U", "g", "G", "w", "nd", "nl", "p", "s", "z"}
  \* d: 0-9   l: a-f   U: A-F   g: g-z   G: G-Z   w: ASCII whitespace   nd: non-ASCII digit   nl: non-ASCII letter
  \* p: ASCII punctuation   s: lone surrogate   z: NUL
Lengths == {0, 1, 2, 39, 40, 41, 63, 64, 65, 127, 128, 129, 130}
Positions == {"first", "middle", "last"}
Ops == {"sub", "ins"}

Base(n) == [i \in 1..n |-> IF i % 2 = 1 THEN "d" ELSE "l"]
PosIdx(pos, n) == IF pos = "first" THEN 1 ELSE IF pos = "last" THEN n ELSE (n \div 2) + 1
Apply(s, dev) ==
  LET n == Len(s) IN
  IF dev.op = "none" THEN s
  ELSE IF dev.op = "sub"
    THEN (IF n = 0 THEN s ELSE [s EXCEPT ![PosIdx(dev.pos, n)] = dev.cls])
    ELSE (IF n = 0 THEN <<dev.cls>>
          ELSE LET i == PosIdx(dev.pos, n) IN SubSeq(s, 1, i - 1) \o <<dev.cls>> \o SubSeq(s, i, n))
NoDev == [op |-> "none", pos |-> "first", cls |-> "d"]
Devs == {NoDev} \cup [op : Ops, pos : Positions, cls : Classes]
StringOf(t) == Apply(Apply(Base(t.len), t.d1), t.d2)

(* ------------------------------ the grammars --------------------------- *)
LowerHexChar(c) == c \in (IF MUTANT = "upper_ok" THEN {"d", "l", "U"}
                          ELSE IF MUTANT = "ws_ok" THEN {"d", "l", "w"}
                          ELSE IF MUTANT = "unicode_digits" THEN {"d", "l", "nd"} ELSE {"d", "l"})
IsLowerHex(s) == \A i \in DOMAIN s : LowerHexChar(s[i])
IsHexString(s) == Len(s) > 0 /\ Len(s) % 2 = 0 /\ IsLowerHex(s)
IsHexKey(s) == IsLowerHex(s) /\ (IF MUTANT = "len_le" THEN Len(s) <= 64 /\ Len(s) > 0 /\ Len(s) % 2 = 0 ELSE Len(s) = 64)
IsHexSig(s) == Len(s) = 128 /\ IsLowerHex(s)
IsFingerprint(s) == Len(s) = 40 /\ IsLowerHex(s)

(* signature entries: a JSON value abstracted to container kind + field classes *)
SigVals == {"absent", "good", "upper", "short", "long", "nonstr"}
HdrVals == {"absent", "good", "odd", "empty", "upper", "nonhex", "nonstr"}
FpVals  == {"absent", "good", "short", "long", "short_even", "long_even", "upper", "nonstr", "falsy"}      \* falsy: present but "", null, 0, [] ...
Containers == {"dict", "list", "str", "null", "int"}
IsRawEntry(e) == e.c = "dict" /\ e.sig = "good" /\ e.hdr = "absent" /\ e.fp = "absent" /\ ~e.extra
IsGpgEntry(e) == e.c = "dict" /\ e.sig = "good" /\ e.hdr = "good" /\ e.fp \in {"absent", "good"} /\ ~e.extra
IsAnyEntry(e) == IsRawEntry(e) \/ IsGpgEntry(e)

(* key lists: elements are key A, key B, or a non-canonical spelling of A *)
Elems == {"A", "B", "A_upper", "A_padded", "A_0x", "nonstr"}
WellFormedElem(x) == x \in {"A", "B"}
NoDupKeys(l) == (\A i \in DOMAIN l : WellFormedElem(l[i])) /\ (\A i, j \in DOMAIN l : i # j => l[i] # l[j])
KeyOfElem(x) == IF x = "B" THEN "B" ELSE IF x = "nonstr" THEN "none" ELSE "A"   \* which key bytes the element denotes, under ANY spelling
ListOK == \A l \in UNION {[1..n -> Elems] : n \in 0..3} :
            NoDupKeys(l) => \A i, j \in DOMAIN l : i # j => KeyOfElem(l[i]) # KeyOfElem(l[j])

(* one spelling per byte string, on a concrete miniature: 2-character strings *)
MiniChars == {"0", "1", "a", "f", "A", "F", " "}
MiniClass(ch) == IF ch \in {"0", "1"} THEN "d" ELSE IF ch \in {"a", "f"} THEN "l" ELSE IF ch \in {"A", "F"} THEN "U" ELSE "w"
MiniVal(ch) == CASE ch = "0" -> 0 [] ch = "1" -> 1 [] ch \in {"a", "A"} -> 10 [] ch \in {"f", "F"} -> 15 [] OTHER -> 99
MiniAccept(s) == \A i \in DOMAIN s : LowerHexChar(MiniClass(s[i]))
(* what bytes.fromhex-style decoding yields: nibble values, ASCII whitespace skipped, case folded *)
MiniDecode(s) == SelectSeq([i \in DOMAIN s |-> MiniVal(s[i])], LAMBDA x : x # 99)
MiniStrings == UNION {[1..n -> MiniChars] : n \in 2..3}
OneSpelling == \A s, t \in MiniStrings : (MiniAccept(s) /\ MiniAccept(t) /\ MiniDecode(s) = MiniDecode(t)) => s = t
ASSUME ListOK
ASSUME OneSpelling

(* ------------------------------ long strings --------------------------- *)
(* The generic hex-string grammar has no length bound (other_headers).  For one deviation the verdict has a closed form that      *)
(* does not need the string itself; TLC confirms it against the explicit strings on every bounded length, and the harness uses   *)
(* it for strings of 65 thousand characters and more, with the deviation also placed around the 65536-character mark.            *)
LongLengths == {65534, 65536, 65537, 65538, 131072, 131074, 200001}
LongPositions == Positions \cup {"at65536", "at65537", "at100"}
LongDevs == {NoDev} \cup [op : Ops, pos : LongPositions, cls : Classes]
LongHex(n, dev) == LET m == n + (IF dev.op = "ins" THEN 1 ELSE 0) IN
                     m > 0 /\ m % 2 = 0 /\ (dev.op = "none" \/ (n = 0 /\ dev.op = "sub") \/ LowerHexChar(dev.cls))
ClosedForm == \A n \in Lengths, dev \in Devs : LongHex(n, dev) = IsHexString(Apply(Base(n), dev))
ASSUME ClosedForm

(* ------------------------------ enumeration ---------------------------- *)
VARIABLES kind, t, e, l, pc
vars == <<kind, t, e, l, pc>>
NoT == [len |-> 0, d1 |-> NoDev, d2 |-> NoDev]
NoE == [c |-> "null", sig |-> "absent", hdr |-> "absent", fp |-> "absent", extra |-> FALSE]
Init == /\ pc = "new"
        /\ \/ (kind = "string" /\ e = NoE /\ l = <<>> /\ \E n \in Lengths, a \in Devs, b \in Devs :
                  /\ (a.op = "none" => b.op = "none")
                  /\ t = [len |-> n, d1 |-> a, d2 |-> b])
           \/ (kind = "entry" /\ t = NoT /\ l = <<>> /\ \E c \in Containers, s \in SigVals, h \in HdrVals, f \in FpVals, x \in BOOLEAN :
                  e = [c |-> c, sig |-> s, hdr |-> h, fp |-> f, extra |-> x])
           \/ (kind = "long" /\ e = NoE /\ l = <<>> /\ \E n \in LongLengths, a \in LongDevs : t = [len |-> n, d1 |-> a, d2 |-> NoDev])
           \/ (kind = "list" /\ t = NoT /\ e = NoE /\ \E n \in 0..3 : \E f \in [1..n -> Elems] : l = f)
Emit == /\ pc = "new" /\ pc' = "done" /\ UNCHANGED <<kind, t, e, l>>
        /\ PrintT("@@" \o ToJson(
             IF kind = "string" THEN
               LET s == StringOf(t) IN [kind |-> kind, t |-> t, classes |-> s, hexstring |-> IsHexString(s), key |-> IsHexKey(s),
                                        sig |-> IsHexSig(s), fp |-> IsFingerprint(s)]
             ELSE IF kind = "long" THEN [kind |-> kind, t |-> t, hexstring |-> LongHex(t.len, t.d1)]
             ELSE IF kind = "entry" THEN [kind |-> kind, e |-> e, raw |-> IsRawEntry(e), gpg |-> IsGpgEntry(e), any |-> IsAnyEntry(e)]
             ELSE [kind |-> kind, l |-> l, nodup |-> NoDupKeys(l)]))
Next == Emit
(* design-level sanity: the three fixed-length grammars are pairwise disjoint and refine the generic one *)
Disjoint == kind = "string" => LET s == StringOf(t) IN
              /\ ~(IsHexKey(s) /\ IsHexSig(s)) /\ ~(IsHexKey(s) /\ IsFingerprint(s)) /\ ~(IsHexSig(s) /\ IsFingerprint(s))
              /\ (IsHexKey(s) \/ IsHexSig(s) \/ IsFingerprint(s)) => IsHexString(s)
OnlyExactLengths == kind = "string" => LET s == StringOf(t) IN
              (IsHexKey(s) => Len(s) = 64) /\ (IsHexSig(s) => Len(s) = 128) /\ (IsFingerprint(s) => Len(s) = 40)
=============================================================================
