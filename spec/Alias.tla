------------------------------- MODULE Alias -------------------------------
(***************************************************************************)
(* Object identity between the two arguments of a verifier (C12, and the   *)
(* persistence clause of C08).  The trusted and the offered root refer to  *)
(* the key list of their root rule by ADDRESS in a small heap: two         *)
(* documents may hold the very same list object (the offered root was made *)
(* from the trusted one by copy-and-edit), two equal lists, or different   *)
(* ones.  The verdict is a function of the VALUES; writing both documents  *)
(* to files and loading them back (Reload) gives every reference its own   *)
(* object and must not change it.                                          *)
(***************************************************************************)
EXTENDS Naturals, Sequences, FiniteSets, TLC, Json

CONSTANTS MUTANT

Key == 1..3
Addr == {"a1", "a2"}
KeyLists == (SUBSET Key) \ {{}}

VARIABLES heap, t, n, signers, pc, outcome, reloaded
vars == <<heap, t, n, signers, pc, outcome, reloaded>>

(* requirement: old rule and new rule, both over the values *)
OldMet == Cardinality(signers \cap heap[t.keys]) >= t.thr
NewMet == Cardinality(signers \cap heap[n.keys]) >= n.thr
Verdict == IF OldMet /\ NewMet THEN "accept" ELSE "SignatureError"

Init == /\ heap \in [Addr -> KeyLists]
        /\ \E ta \in Addr, na \in Addr, tt \in 1..2, nt \in 1..3 :
              /\ t = [keys |-> ta, thr |-> tt] /\ n = [keys |-> na, thr |-> nt]
        /\ signers \in SUBSET Key
        /\ pc = "old" /\ outcome = "none" /\ reloaded = FALSE

Shared == n.keys = t.keys

CheckOld == /\ pc = "old"
            /\ IF OldMet THEN pc' = "new" /\ outcome' = outcome ELSE pc' = "done" /\ outcome' = "SignatureError"
            /\ UNCHANGED <<heap, t, n, signers, reloaded>>
CheckNew == /\ pc = "new"
            /\ outcome' = IF MUTANT = "same_list_skip" /\ Shared THEN "accept"       \* "nothing to repeat if the key list is carried over as is"
                          ELSE IF NewMet THEN "accept" ELSE "SignatureError"
            /\ pc' = "done" /\ UNCHANGED <<heap, t, n, signers, reloaded>>
(* write both documents, load them back: equal values, no shared objects; then verify again *)
Reload == /\ pc = "done" /\ ~reloaded
          /\ heap' = [a \in Addr |-> IF a = "a1" THEN heap[t.keys] ELSE heap[n.keys]]
          /\ t' = [t EXCEPT !.keys = "a1"] /\ n' = [n EXCEPT !.keys = "a2"]
          /\ reloaded' = TRUE /\ pc' = "old" /\ UNCHANGED <<signers, outcome>>
          /\ PrintT("@@" \o ToJson([tkeys |-> heap[t.keys], nkeys |-> heap[n.keys], shared |-> Shared, tthr |-> t.thr, nthr |-> n.thr,
                                    signers |-> signers, verdict |-> Verdict]))
Next == CheckOld \/ CheckNew \/ Reload
Spec == Init /\ [][Next]_vars

ValueDetermined == pc = "done" => outcome = Verdict
(* the verdict before and after persisting is the same (the second verification starts from the first one's outcome) *)
PersistNeutral == [][(pc = "new" \/ pc = "old") /\ pc' = "done" /\ reloaded => outcome' = outcome]_vars
=============================================================================
