----------------------------- MODULE SchemaReq -----------------------------
(***************************************************************************)
(* The delegating-metadata schema (C14) as pure operators: field classes,  *)
(* the three-valued requirement (accept / reject / unspecified) and the    *)
(* two-valued transcription of common.checkformat_delegating_metadata.     *)
(* Shared by Schema (enumeration of mutations) and Builders (C16).         *)
(***************************************************************************)
EXTENDS Naturals, Sequences, FiniteSets, TLC

CONSTANTS MUTANT

Fields == <<"env", "signedkind", "sigvals", "type", "spec", "deleg", "exp", "ts", "ver">>

DateClasses == {"ok", "leap_ok", "nonstr", "null", "noZ", "noT", "trailing", "wrongsep", "missing_field", "extra_field", "empty", "tz_offset",
                "feb30", "month13", "day00", "hour25", "min60",          \* canonical spelling of an instant that does not exist
                "unpadded", "lower_tz", "nonascii_digits", "h24", "sec60", "year0"}
ClassesOf(f) ==
  CASE f = "env"        -> {"ok", "extra_top", "no_signatures", "no_signed", "sigs_not_dict", "sigs_null", "not_dict"}
    [] f = "signedkind" -> {"dict", "list", "str", "int", "null"}
    [] f = "sigvals"    -> {"none", "raw_ok", "gpg_ok", "gpgfp_ok", "bad_value", "bad_value_nondict", "bad_gpg_headers", "hex_as_char_list", "nonkey_name_ok_value"}
    [] f = "type"       -> {"root", "key_mgr", "unsupported", "nonstr", "missing", "uppercase"}
    [] f = "spec"       -> {"ok", "nonstr", "missing", "nondotted", "null"}
    [] f = "deleg"      -> {"empty", "one_ok", "two_ok", "thr_gt_keys", "emptykeys", "thr_huge", "roles_unusual",
                            "not_dict", "null", "entry_not_dict", "entry_missing_thr", "entry_missing_keys", "entry_extra", "keys_not_list",
                            "key_upper", "key_short", "key_long", "key_dup", "key_nonstr", "key_ws", "key_nonascii_digits",
                            "thr_zero", "thr_neg", "thr_frac", "thr_str", "thr_null", "thr_inf", "thr_nan", "thr_list",
                            "thr_bool", "thr_intfloat", "role_empty", "missing"}
    [] f = "exp"        -> DateClasses \cup {"missing"}
    [] f = "ts"         -> DateClasses \cup {"absent"}
    [] f = "ver"        -> {"absent", "ok1", "ok_huge", "zero", "neg", "frac", "str", "null", "inf", "neginf", "nan", "list", "bool", "intfloat"}

A == "accept"  R == "reject"  U == "unspecified"
DateVerdict(c) == IF c \in {"ok", "leap_ok"} THEN A
                  ELSE IF c \in {"unpadded", "lower_tz", "nonascii_digits", "h24", "sec60", "year0"} THEN U ELSE R
NumVerdict(c) == IF c \in {"ok1", "ok_huge"} THEN A ELSE IF c \in {"bool", "intfloat"} THEN U ELSE R
(* REQUIREMENT LAYER: what the property statement fixes for each field class *)
FieldVerdict(f, c) ==
  CASE f = "env"        -> IF c = "ok" THEN A ELSE R
    [] f = "signedkind" -> IF c = "dict" THEN A ELSE R
    [] f = "sigvals"    -> IF c \in {"none", "raw_ok", "gpg_ok", "gpgfp_ok"} THEN A ELSE IF c = "nonkey_name_ok_value" THEN U ELSE R
    [] f = "type"       -> IF c \in {"root", "key_mgr"} THEN A ELSE R
    [] f = "spec"       -> IF c = "ok" THEN A ELSE IF c = "nondotted" THEN U ELSE R
    [] f = "deleg"      -> IF c \in {"empty", "one_ok", "two_ok", "thr_gt_keys", "emptykeys", "thr_huge", "roles_unusual"} THEN A
                           ELSE IF c \in {"thr_bool", "thr_intfloat", "role_empty"} THEN U ELSE R
    [] f = "exp"        -> IF c = "missing" THEN R ELSE DateVerdict(c)
    [] f = "ts"         -> IF c = "absent" THEN A ELSE DateVerdict(c)
    [] f = "ver"        -> IF c = "absent" THEN A ELSE NumVerdict(c)

(* IMPLEMENTATION LAYER: common.checkformat_delegating_metadata transcribed - two-valued, including what the *)
(* code does today on the unspecified classes (strptime's tolerance, int(x) == x for numbers)                *)
ImplDate(c) == c \in {"ok", "leap_ok", "unpadded", "lower_tz", "nonascii_digits"}
ImplNum(c) == c \in {"ok1", "ok_huge", "bool", "intfloat"}
ImplField(f, c) ==
  CASE f = "env"        -> c = "ok"
    [] f = "signedkind" -> c = "dict"
    [] f = "sigvals"    -> c \in {"none", "raw_ok", "gpg_ok", "gpgfp_ok", "nonkey_name_ok_value"} \/ MUTANT = "sigvals_unchecked"
    [] f = "type"       -> c \in {"root", "key_mgr"}
    [] f = "spec"       -> c \in {"ok", "nondotted"}
    [] f = "deleg"      -> \/ c \in {"empty", "one_ok", "two_ok", "thr_gt_keys", "emptykeys", "thr_huge", "roles_unusual", "thr_bool", "thr_intfloat", "role_empty"}
                           \/ (c = "thr_zero" /\ MUTANT = "thr_ge_0") \/ (c = "key_dup" /\ MUTANT = "dups_ok")
                           \/ (c = "entry_extra" /\ MUTANT = "extra_ok")
    [] f = "exp"        -> c # "missing" /\ ImplDate(c)
    [] f = "ts"         -> c = "absent" \/ ImplDate(c)
    [] f = "ver"        -> c = "absent" \/ ImplNum(c)
Checker(d) ==
  IF d.env # "ok" \/ d.signedkind # "dict" THEN R
  ELSE IF \E f \in {"sigvals", "type", "spec", "deleg", "exp", "ts", "ver"} : ~ImplField(f, d[f]) THEN R
  ELSE IF d.ts = "absent" /\ d.ver = "absent" THEN R
  ELSE IF d.type = "root" /\ d.ver = "absent" /\ MUTANT # "root_version_optional" THEN R
  ELSE A

Combine(vs) == IF R \in vs THEN R ELSE IF U \in vs THEN U ELSE A
Structural(d) == d.env = "ok" /\ d.signedkind = "dict"
CrossField(d) ==
  IF d.ts = "absent" /\ d.ver = "absent" THEN R
  ELSE IF d.type = "root" /\ d.ver = "absent" THEN R ELSE A
(* verdict on the signed portion alone (what C06 binds the type to) and on the whole envelope *)
SignedVerdict(d) ==
  IF d.signedkind # "dict" THEN R
  ELSE Combine({FieldVerdict(f, d[f]) : f \in {"type", "spec", "deleg", "exp", "ts", "ver"}} \cup {CrossField(d)})
Accepts(d) ==
  IF ~Structural(d) THEN R
  ELSE Combine({FieldVerdict("sigvals", d.sigvals), SignedVerdict(d)})

=============================================================================
