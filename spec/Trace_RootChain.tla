------------------------- MODULE Trace_RootChain -------------------------
(***************************************************************************)
(* Trace validation for the client root-update loop (C04).  A trace is a   *)
(* recorded history: honest rotations / careless rotations / compromises   *)
(* (environment events, logged by the driver) and offers, persists and     *)
(* restarts executed against the real verify_root / write_metadata_to_file *)
(* / load_metadata_from_file.  Every event must be a RootChain action from *)
(* the current specification state; for an offer the logged outcome class  *)
(* must be in OfferAllowed(trusted, offer) for the CURRENT spec state and  *)
(* the logged post-state must equal the spec's - which is exactly "the     *)
(* verdict never depends on earlier offers".                               *)
(***************************************************************************)
EXTENDS RootChain, IOUtils

Traces == JsonDeserialize(IOEnv.TRACE_FILE)
VARIABLES tid, l
tvars == <<vars, tid, l>>
Ev == Traces[tid].events[l]
C(c) == Content(c.ver, SeqToSet(c.rk), c.rt, c.tag)
E(ev) == [content |-> C(ev.content), signers |-> SeqToSet(ev.signers)]

Report(ok, why) == PrintT("@@" \o ToJson([tid |-> Traces[tid].id, l |-> l, ok |-> ok, why |-> why,
                                          allowed |-> IF Ev.a = "offer" THEN OfferAllowed(trusted.content, E(Ev)) ELSE {},
                                          spec_after |-> trusted'.content]))

TInit == Init /\ tid \in DOMAIN Traces /\ l = 1
Adv(ok) == l' = l + 1 /\ UNCHANGED tid

TRotate == /\ Ev.a = "rotate" /\ DoRotate(SeqToSet(Ev.content.rk), Ev.content.rt, SeqToSet(Ev.signers))
           /\ Report(TRUE, "") /\ Adv(TRUE)
TCareless == /\ Ev.a = "careless" /\ DoCareless(SeqToSet(Ev.content.rk), Ev.content.rt)
             /\ Report(TRUE, "") /\ Adv(TRUE)
TCompromise == /\ Ev.a = "compromise" /\ Compromise(Ev.key) /\ Report(TRUE, "") /\ Adv(TRUE)
TOffer == /\ Ev.a = "offer" /\ CanAssemble(E(Ev)) /\ Offer(E(Ev))
          /\ LET okOutcome == Ev.outcome \in OfferAllowed(trusted.content, E(Ev))
                 okState == trusted'.content = C(Ev.after) IN
             Report(okOutcome /\ okState,
                    IF ~okOutcome THEN "outcome not allowed from the current trusted root"
                    ELSE IF ~okState THEN "client root after the offer differs from the specification's" ELSE "")
          /\ Adv(TRUE)
TPersist == /\ Ev.a = "persist" /\ (Persist \/ (disk = trusted /\ UNCHANGED vars)) /\ Report(TRUE, "") /\ Adv(TRUE)
TRestart == /\ Ev.a = "restart" /\ Restart
            /\ Report(trusted'.content = C(Ev.after), "root loaded from disk differs from the root that was persisted")
            /\ Adv(TRUE)
TNext == l <= Len(Traces[tid].events) /\ (TRotate \/ TCareless \/ TCompromise \/ TOffer \/ TPersist \/ TRestart)
=============================================================================
