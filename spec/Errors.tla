------------------------------ MODULE Errors ------------------------------
(***************************************************************************)
(* Fail-closed error families (C13): for every public validator and        *)
(* verifier, the set of outcome classes its documentation allows for ANY   *)
(* input whatsoever.  (What each verifier must answer in the three named   *)
(* situations - insufficient signatures, undelegated role, version or type *)
(* mismatch - is fixed by Allowed in Verify / Delegation / RootReq.)       *)
(*                                                                         *)
(* The trace part judges a deduplicated list of observations               *)
(* [api, outcome]: an observation is accepted iff outcome \in Documented.  *)
(***************************************************************************)
EXTENDS Naturals, Sequences, FiniteSets, TLC, Json, IOUtils

Own == {"SignatureError", "MetadataVerificationError", "UnknownRoleError", "CCT_Error"}
Arg == {"TypeError", "ValueError"}
Verifiers == {"verify_signable", "verify_delegation", "verify_root"}
Primitives == {"verify_signature", "verify_gpg_signature"}
Predicates == {"is_hex_string", "is_hex_signature", "is_hex_key", "is_signable", "is_gpg_fingerprint", "is_gpg_signature", "is_signature"}
Validators == {"checkformat_hex_string", "checkformat_hex_key", "checkformat_list_of_hex_keys", "checkformat_signable", "checkformat_byteslike",
               "checkformat_natural_int", "checkformat_string", "checkformat_expiration_distance", "checkformat_utc_isoformat",
               "checkformat_gpg_fingerprint", "checkformat_gpg_signature", "checkformat_signature", "checkformat_any_signature",
               "checkformat_delegation", "checkformat_delegations", "checkformat_delegating_metadata", "checkformat_key"}
Kind(api) == IF api \in Verifiers THEN "verifier" ELSE IF api \in Primitives THEN "primitive"
             ELSE IF api \in Predicates THEN "predicate" ELSE IF api \in Validators THEN "validator" ELSE "unknown"

(* "returns" = accept for verifiers/validators, True/False for predicates *)
Documented(api) ==
  CASE Kind(api) = "verifier"  -> {"accept"} \cup Own \cup Arg
    [] Kind(api) = "primitive" -> {"accept", "InvalidSignature"} \cup Own \cup Arg
    [] Kind(api) = "predicate" -> {"True", "False"}           \* predicate forms never raise
    [] Kind(api) = "validator" -> {"accept"} \cup Arg
    [] OTHER                   -> {}

Events == JsonDeserialize(IOEnv.TRACE_FILE)
VARIABLES i
Init == i = 1
Next == /\ i <= Len(Events)
        /\ PrintT("@@" \o ToJson([eid |-> i, ok |-> Events[i].outcome \in Documented(Events[i].api),
                                  documented |-> Documented(Events[i].api)]))
        /\ i' = i + 1
Families == {"accept", "True", "False", "InvalidSignature"} \cup Own \cup Arg
NeverInternal == \A api \in Verifiers \cup Primitives \cup Predicates \cup Validators : Documented(api) \subseteq Families /\ Documented(api) # {}
=============================================================================
