----------------------------- MODULE InPlace -----------------------------
(***************************************************************************)
(* In-place signing of files under faults (C18) and what repodata signing  *)
(* produces (C11).  Five procedures, each a sequence of steps shaped like  *)
(* the code:                                                               *)
(*   repodata : signing.sign_all_in_repodata                               *)
(*   cli_sign : cli.cli_sign_artifacts (key-file handling, then repodata)  *)
(*   gpg      : root_signing.sign_root_metadata_via_gpg                    *)
(*   cli_gpg  : cli.cli_gpg_sign                                           *)
(*   write    : common.write_metadata_to_file                              *)
(* A step is "compute" (no effect on the target file), "open" (the target  *)
(* is opened for writing and thereby truncated) or "write".  Fault may hit *)
(* at any step (an exception raised at any point), and inputs may be       *)
(* malformed so that a step fails by itself.                               *)
(***************************************************************************)
EXTENDS Naturals, Sequences, FiniteSets, TLC, Json

CONSTANTS Arts,        \* artifact names under "packages"
          Conda,       \* artifact names under "packages.conda"
          Metas,       \* metadata identities
          MUTANT, Emit,
          AnyOrder     \* TRUE: artifacts are signed in any order (model checking); FALSE: one fixed order (long traces)

Procs == {"repodata", "cli_sign", "gpg", "cli_gpg", "write"}
StepsOf(p) ==
  CASE p = "repodata" -> <<"ValidateArgs", "LoadKey", "Load", "CheckShape", "ResetSigs", "SignArtifacts", "SignConda",
                           "Serialize", "OpenTruncate", "WriteBytes">>
    [] p = "cli_sign" -> <<"ReadKeyFile", "NormaliseKey", "CheckKey", "ValidateArgs", "LoadKey", "Load", "CheckShape", "ResetSigs",
                           "SignArtifacts", "SignConda", "Serialize", "OpenTruncate", "WriteBytes">>
    [] p = "gpg"      -> <<"Load", "CheckAvailable", "CheckSignable", "SerializeSigned", "AskSigner", "FetchKey", "Attach",
                           "Serialize", "OpenTruncate", "WriteBytes">>
    [] p = "cli_gpg"  -> <<"NormaliseFingerprint", "Load", "CheckAvailable", "CheckSignable", "SerializeSigned", "AskSigner",
                           "FetchKey", "Attach", "Serialize", "OpenTruncate", "WriteBytes">>
    [] p = "write"    -> <<"Serialize", "OpenTruncate", "WriteBytes">>
MutSteps(p) ==
  IF MUTANT = "open_first" THEN   \* open(filename, "wb") moved in front of canonserialize
       LET s == StepsOf(p) n == Len(s) IN SubSeq(s, 1, n - 3) \o <<"OpenTruncate", "Serialize", "WriteBytes">>
  ELSE StepsOf(p)
Kind(s) == IF s = "OpenTruncate" THEN "open" ELSE IF s = "WriteBytes" THEN "write" ELSE "compute"

(* malformed inputs: which step rejects them *)
Inputs == {"ok", "not_json", "no_packages", "packages_not_object", "conda_not_object", "bad_key", "key_file_unreadable", "key_file_not_hex",
           "no_sslib", "not_signable", "unserializable", "signer_fails", "key_lookup_fails"}
FailsAt(p, input) ==
  CASE input = "not_json" -> "Load"
    [] input = "no_packages" -> "CheckShape"
    [] input = "packages_not_object" -> "SignArtifacts"
    [] input = "conda_not_object" -> "SignConda"           \* discovered only after every entry of "packages" has been signed
    [] input = "bad_key" -> IF p = "cli_sign" THEN "CheckKey" ELSE IF p = "repodata" THEN "ValidateArgs" ELSE "AskSigner"
    [] input = "key_file_unreadable" -> "ReadKeyFile"
    [] input = "key_file_not_hex" -> "CheckKey"
    [] input = "no_sslib" -> "CheckAvailable"
    [] input = "not_signable" -> "CheckSignable"
    [] input = "unserializable" -> "Serialize"
    [] input = "signer_fails" -> "AskSigner"
    [] input = "key_lookup_fails" -> "FetchKey"
    [] OTHER -> "never"
InputsOf(p) ==
  CASE p = "repodata" -> {"ok", "not_json", "no_packages", "packages_not_object", "conda_not_object", "bad_key"}
    [] p = "cli_sign" -> {"ok", "not_json", "no_packages", "packages_not_object", "conda_not_object", "bad_key", "key_file_unreadable", "key_file_not_hex"}
    [] p \in {"gpg", "cli_gpg"} -> {"ok", "not_json", "no_sslib", "not_signable", "unserializable", "signer_fails", "key_lookup_fails", "bad_key"}
    [] p = "write" -> {"ok", "unserializable"}
Applicable(p, input) == input \in InputsOf(p)

VARIABLES proc, input, doc, pc, todoA, todoC, sigs, serialized, disk, status, faultAt
vars == <<proc, input, doc, pc, todoA, todoC, sigs, serialized, disk, status, faultAt>>

(* a repodata document: which artifacts exist, their metadata identity, what the signatures section held *)
Docs == [pk : SUBSET Arts, cd : SUBSET Conda \cup {{"nosection"}}, meta : [Arts \cup Conda -> Metas],
         pre : {"absent", "empty", "stale_gone", "stale_present", "stale_own_key", "current_own_key", "junk"}, extra : BOOLEAN]
  \* stale_own_key: well-formed entries under the SIGNER's own public key for artifacts that are still listed, made over
  \* older metadata (the file was signed before and its metadata patched since); current_own_key: the section already
  \* holds exactly what this key would produce, but the file was re-emitted by another tool in a non-canonical layout
CdNames(d) == IF d.cd = {"nosection"} THEN {} ELSE d.cd
Names(d) == d.pk \cup CdNames(d)
NoSig == "none"
(* requirement layer for C11: the signatures section after signing with key k *)
SignAllFn(d) == [a \in Names(d) |-> d.meta[a]]      \* entry for a = signature over a's own metadata

Steps == MutSteps(proc)
Cur == IF pc <= Len(Steps) THEN Steps[pc] ELSE "end"

Init == /\ proc \in Procs /\ input \in Inputs /\ Applicable(proc, input)
        /\ doc \in Docs
        /\ (proc \notin {"repodata", "cli_sign"} =>
               doc = [pk |-> {}, cd |-> {}, meta |-> [a \in Arts \cup Conda |-> CHOOSE m \in Metas : TRUE], pre |-> "absent", extra |-> FALSE])
        /\ (input # "ok" => doc.pre = "absent" /\ ~doc.extra)
        /\ pc = 1 /\ todoA = doc.pk /\ todoC = CdNames(doc) /\ sigs = [a \in {} |-> NoSig]
        /\ serialized = FALSE /\ disk = "old" /\ status = "running" /\ faultAt = "none"

Advance == pc' = pc + 1 /\ status' = IF pc + 1 > Len(Steps) THEN "done" ELSE "running"
FailHere == status' = "failed" /\ faultAt' = Cur /\ UNCHANGED <<pc, todoA, todoC, sigs, serialized, disk>>

Compute ==
  /\ status = "running" /\ Kind(Cur) = "compute"
  /\ IF FailsAt(proc, input) = Cur /\ ~(Cur \in {"SignArtifacts"} /\ FALSE)
       THEN FailHere
       ELSE /\ faultAt' = faultAt
            /\ CASE Cur = "ResetSigs" ->
                      /\ sigs' = (IF MUTANT = "keep_stale" /\ doc.pre = "stale_gone" THEN [a \in {"ghost"} |-> "stale"] ELSE [a \in {} |-> NoSig])
                      /\ Advance /\ UNCHANGED <<todoA, todoC, serialized, disk>>
                 [] Cur = "SignArtifacts" ->
                      IF todoA = {} THEN Advance /\ UNCHANGED <<todoA, todoC, sigs, serialized, disk>>
                      ELSE \E a \in (IF AnyOrder THEN todoA ELSE {CHOOSE x \in todoA : TRUE}) :
                             /\ sigs' = [x \in DOMAIN sigs \cup {a} |-> IF x = a THEN doc.meta[a] ELSE sigs[x]]
                             /\ todoA' = todoA \ {a}
                             /\ disk' = IF MUTANT = "write_in_loop" THEN "partial" ELSE disk
                             /\ UNCHANGED <<pc, todoC, serialized, status>>
                 [] Cur = "SignConda" ->
                      IF todoC = {} \/ MUTANT = "skip_conda" THEN Advance /\ UNCHANGED <<todoA, todoC, sigs, serialized, disk>>
                      ELSE \E a \in (IF AnyOrder THEN todoC ELSE {CHOOSE x \in todoC : TRUE}) :
                             /\ sigs' = [x \in DOMAIN sigs \cup {a} |-> IF x = a THEN (IF MUTANT = "sign_name" THEN "name" ELSE doc.meta[a]) ELSE sigs[x]]
                             /\ todoC' = todoC \ {a}
                             /\ UNCHANGED <<pc, todoA, serialized, disk, status>>
                 [] Cur = "Serialize" -> serialized' = TRUE /\ Advance /\ UNCHANGED <<todoA, todoC, sigs, disk>>
                 [] OTHER -> Advance /\ UNCHANGED <<todoA, todoC, sigs, serialized, disk>>
  /\ UNCHANGED <<proc, input, doc>>

OpenTruncate == /\ status = "running" /\ Kind(Cur) = "open"
                /\ disk' = "empty" /\ Advance
                /\ UNCHANGED <<proc, input, doc, todoA, todoC, sigs, serialized, faultAt>>
WriteBytes   == /\ status = "running" /\ Kind(Cur) = "write"
                /\ disk' = "new" /\ Advance
                /\ UNCHANGED <<proc, input, doc, todoA, todoC, sigs, serialized, faultAt>>
(* an error raised at any point of the current step; during WriteBytes it may leave a prefix *)
Fault == /\ status = "running"
         /\ status' = "failed" /\ faultAt' = Cur
         /\ disk' = IF Kind(Cur) = "write" THEN "partial" ELSE disk
         /\ UNCHANGED <<proc, input, doc, pc, todoA, todoC, sigs, serialized>>

Next == Compute \/ OpenTruncate \/ WriteBytes \/ Fault

(* enumeration of the abstract cases for the replay: one line per initial state *)
DocJson(d) == [pk |-> d.pk, cd |-> IF d.cd = {"nosection"} THEN <<"nosection">> ELSE <<"section", d.cd>>, meta |-> d.meta, pre |-> d.pre, extra |-> d.extra]
EmitOnly == /\ status = "running" /\ pc = 1
            /\ PrintT("@@" \o ToJson([proc |-> proc, input |-> input, doc |-> DocJson(doc),
                                       fails_at |-> FailsAt(proc, input), steps |-> StepsOf(proc)]))
            /\ status' = "emitted" /\ UNCHANGED <<proc, input, doc, pc, todoA, todoC, sigs, serialized, disk, faultAt>>
Spec == Init /\ [][Next]_vars /\ WF_vars(Compute \/ OpenTruncate \/ WriteBytes)

(* ------------------------------- C18 ----------------------------------- *)
OutputPhase == {"OpenTruncate", "WriteBytes"}
AllSigned == todoA = {} /\ (todoC = {} \/ proc \notin {"repodata", "cli_sign"})
NoEarlyTouch == disk # "old" => (serialized /\ AllSigned)
AllOrNothing == (status = "failed" /\ faultAt \notin OutputPhase) => disk = "old"
NoPartial    == disk = "partial" => (status = "failed" /\ faultAt = "WriteBytes")
DoneMeansWritten == status = "done" => disk = "new"
(* ------------------------------- C11 ----------------------------------- *)
IsRepodata == proc \in {"repodata", "cli_sign"}
DomainExact  == (status = "done" /\ IsRepodata) => DOMAIN sigs = Names(doc)
OwnMetadata  == (status = "done" /\ IsRepodata) => \A a \in Names(doc) : sigs[a] = doc.meta[a]
NoCrossVerify == (status = "done" /\ IsRepodata) => \A a, b \in Names(doc) : doc.meta[a] # doc.meta[b] => sigs[a] # doc.meta[b]
MatchesFn    == (status = "done" /\ IsRepodata) => sigs = SignAllFn(doc)
Terminates == <>(status \in {"done", "failed"})
=============================================================================
