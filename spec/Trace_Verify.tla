-------------------------- MODULE Trace_Verify --------------------------
(***************************************************************************)
(* Trace validation for verify_signable (code -> spec).                    *)
(* The trace file is a JSON array of traces; a trace is a sequence of      *)
(* logged calls with abstracted arguments and the observed outcome class.  *)
(* Each event is explained by running Verify's own actions (Start,         *)
(* Examine, Decide) on the abstracted call and comparing, at the call's    *)
(* return, the logged outcome with the requirement layer (Allowed) and     *)
(* with the implementation layer's prediction (drift).  One "@@" line is   *)
(* printed per consumed event; the harness checks that every event of      *)
(* every trace was consumed.                                               *)
(***************************************************************************)
EXTENDS Verify, IOUtils

Traces == JsonDeserialize(IOEnv.TRACE_FILE)

VARIABLES tid, l, phase
tvars == <<vars, tid, l, phase>>

Ev == Traces[tid].events[l]

CaseOf(ev) == [sigs |-> SigsFromEntries(ev.entries), auth |-> SeqToSet(ev.auth), thr |-> ev.thr, tk |-> "int", out |-> "ok", gpg |-> ev.gpg, authalt |-> FALSE]

TInit == /\ tid \in DOMAIN Traces /\ l = 1 /\ phase = "idle"
         /\ case = [sigs |-> [n \in Names |-> Absent], auth |-> {}, thr |-> 1, tk |-> "int", out |-> "ok", gpg |-> FALSE, authalt |-> FALSE]
         /\ pc = "idle" /\ todo = {} /\ good = {} /\ outcome = "none"

Begin == /\ phase = "idle" /\ l <= Len(Traces[tid].events)
         /\ case' = CaseOf(Ev)
         /\ pc' = "start" /\ todo' = {} /\ good' = {} /\ outcome' = "none"
         /\ phase' = "run" /\ UNCHANGED <<tid, l>>

Step == /\ phase = "run" /\ pc # "done"
        /\ (Start \/ (\E n \in Names : Examine(n)) \/ Decide)
        /\ UNCHANGED <<tid, l, phase>>

(* keys whose signatures were made by the library's own signer (or shipped fixtures' signers): *)
(* the independent oracle must find them among the valid signers                               *)
MustOK == \A i \in DOMAIN Ev.must : Ev.must[i] \in Signers(case.sigs, case.auth, case.gpg)

End == /\ phase = "run" /\ pc = "done"
       /\ PrintT("@@" \o ToJson([tid |-> Traces[tid].id, l |-> l,
                                 ok |-> Ev.outcome \in Allowed(case) /\ MustOK,
                                 must_ok |-> MustOK,
                                 allowed |-> Allowed(case), predicted |-> outcome,
                                 signers |-> Signers(case.sigs, case.auth, case.gpg)]))
       /\ l' = l + 1 /\ phase' = "idle"
       /\ UNCHANGED <<vars, tid>>

TNext == Begin \/ Step \/ End
TSpec == TInit /\ [][TNext]_tvars
=============================================================================
