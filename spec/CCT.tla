-------------------------------- MODULE CCT --------------------------------
(***************************************************************************)
(* End-to-end composition (growth plan, DESIGN section 11): a client that  *)
(* holds trusted root metadata, accepts key_mgr metadata only through the  *)
(* root's key_mgr delegation, and accepts package metadata only through    *)
(* the accepted key_mgr's pkg_mgr delegation - against an adversary who    *)
(* holds some keys, replays honest documents, moves honest signatures onto *)
(* other content and forges documents of every shape.                      *)
(*                                                                         *)
(* The two verification decisions are Delegation's requirement layer       *)
(* specialised to well-formed arguments: accept iff the named rule is met  *)
(* by valid signatures over exactly the presented content.                 *)
(***************************************************************************)
EXTENDS Naturals, Sequences, FiniteSets, TLC, Json

CONSTANTS Key, MaxAdv, MUTANT, History, SimDepth

VARIABLES km,         \* key_mgr content the client currently relies on (or NoKM)
          installed,  \* package metadata the client accepted
          adv,        \* compromised keys
          hadKM,      \* ghost: adversary held a threshold of the root's key_mgr rule
          hadPK,      \* ghost: adversary held a threshold of an accepted honest key_mgr's pkg_mgr rule
          hist
vars == <<km, installed, adv, hadKM, hadPK, hist>>

(* fixed trusted root: key_mgr rule *)
RootKM == [keys |-> {1, 2} \cap Key, thr |-> 1]
KMC(pk, pt, tag) == [pk |-> pk, pt |-> pt, tag |-> tag]
NoKM == KMC({}, 0, "none")
HonestKM == KMC({3} \cap Key, 1, "h")                 \* the honest key_mgr delegates pkg_mgr to key 3
HonestKMSigners == {1} \cap Key                       \* and is signed by key 1
Packages == {"good", "evil"}                          \* "good" is signed by the honest pkg_mgr key, "evil" is the adversary's
HonestPkgSigners == {3} \cap Key

Met(signers, keys, thr) == thr >= 1 /\ Cardinality(signers \cap keys) >= thr
AdvHas(keys, thr) == thr >= 1 /\ Cardinality(adv \cap keys) >= thr
H(rec) == IF History THEN Append(hist, rec) ELSE hist

Init == km = NoKM /\ installed = {} /\ adv = {} /\ hadKM = FALSE /\ hadPK = FALSE /\ hist = <<>>

Compromise(k) == /\ k \notin adv /\ Cardinality(adv) < MaxAdv /\ adv' = adv \cup {k}
                 /\ hist' = H([a |-> "compromise", key |-> k]) /\ UNCHANGED <<km, installed, hadKM, hadPK>>

Ghosts == /\ hadKM' = (hadKM \/ AdvHas(RootKM.keys, RootKM.thr))
          /\ hadPK' = (hadPK \/ (km.tag = "h" /\ AdvHas(km.pk, km.pt)))

(* verify_delegation("key_mgr", e, trusted root) *)
KMAccepts(c, signers) == IF MUTANT = "km_unchecked" THEN TRUE ELSE Met(signers, RootKM.keys, RootKM.thr)
OfferKM(c, signers) ==
  /\ Ghosts
  /\ km' = IF KMAccepts(c, signers) THEN c ELSE km
  /\ hist' = H([a |-> "offer_km", content |-> c, signers |-> signers, accept |-> KMAccepts(c, signers), after |-> km'])
  /\ UNCHANGED <<installed, adv>>

(* verify_delegation("pkg_mgr", wrapped package metadata + its signatures, accepted key_mgr) *)
PkgAccepts(m, signers) ==
  IF km = NoKM THEN FALSE
  ELSE IF MUTANT = "any_signature" THEN signers # {}
  ELSE Met(signers, km.pk, km.pt)
OfferPkg(m, signers) ==
  /\ Ghosts
  /\ installed' = IF PkgAccepts(m, signers) THEN installed \cup {m} ELSE installed
  /\ hist' = H([a |-> "offer_pkg", pkg |-> m, signers |-> signers, accept |-> PkgAccepts(m, signers), has_km |-> km # NoKM])
  /\ UNCHANGED <<km, adv>>

(* what the adversary can assemble: honest documents with any subset of their signatures plus its own; forged content with its own *)
KMOffers == {<<HonestKM, s>> : s \in SUBSET (HonestKMSigners \cup adv)}
            \cup {<<KMC(pk, pt, "a"), s>> : pk \in SUBSET Key, pt \in 1..2, s \in SUBSET adv}
PkgOffers == {<<"good", s>> : s \in SUBSET (HonestPkgSigners \cup adv)} \cup {<<"evil", s>> : s \in SUBSET adv}

Next == \/ \E k \in Key : Compromise(k)
        \/ \E o \in KMOffers : OfferKM(o[1], o[2])
        \/ \E o \in PkgOffers : OfferPkg(o[1], o[2])
Spec == Init /\ [][Next]_vars

Pick(S) == IF S = {} THEN {} ELSE {RandomElement(S)}
SimNext == \/ \E k \in Pick(Key \ adv) : Compromise(k)
           \/ \E o \in Pick(KMOffers) : OfferKM(o[1], o[2])
           \/ OfferKM(HonestKM, HonestKMSigners)
           \/ \E o \in Pick(PkgOffers) : OfferPkg(o[1], o[2])
           \/ OfferPkg("good", HonestPkgSigners)
           \/ OfferPkg("evil", adv)

(* end-to-end soundness: the adversary's package is never accepted unless it held a threshold somewhere on the chain *)
EndToEnd == "evil" \in installed => (hadKM \/ hadPK)
(* and the client never relies on forged key_mgr content unless the adversary held the root's key_mgr threshold *)
KMIntegrity == km.tag = "a" => hadKM
EmitBehaviour == Len(hist) < SimDepth \/ PrintT("@@" \o ToJson(hist))
=============================================================================
