-------------------------- MODULE Trace_InPlace --------------------------
(***************************************************************************)
(* Judges observations of the in-place signing procedures.  An event is    *)
(* one execution: procedure, input class, document shape and what was      *)
(* observed - for a run with an injected fault: the positively identified  *)
(* fault site, whether the target had been opened for writing / renamed    *)
(* over, whether its bytes changed; for a run that failed by itself or     *)
(* completed: the same, plus the abstraction of the result.  The event is  *)
(* accepted iff InPlace has a behaviour from the corresponding initial     *)
(* state that ends in a state matching the observation.  (Search, not      *)
(* replay: the unlogged variables are inferred by TLC.)                    *)
(***************************************************************************)
EXTENDS InPlace, IOUtils

Events == JsonDeserialize(IOEnv.TRACE_FILE)
VARIABLES eid, fin
tvars == <<vars, eid, fin>>
Ev == Events[eid]
SeqSet(s) == {s[i] : i \in DOMAIN s}
DocOf(d) == [pk |-> SeqSet(d.pk), cd |-> IF d.cd[1] = "nosection" THEN {"nosection"} ELSE SeqSet(d.cd[2]),
             meta |-> [a \in Arts \cup Conda |-> d.meta[a]], pre |-> d.pre, extra |-> d.extra]

TInit == /\ eid \in DOMAIN Events /\ fin = FALSE
         /\ proc = Ev.proc /\ input = Ev.input /\ doc = DocOf(Ev.doc)
         /\ pc = 1 /\ todoA = doc.pk /\ todoC = CdNames(doc) /\ sigs = [a \in {} |-> NoSig]
         /\ serialized = FALSE /\ disk = "old" /\ status = "running" /\ faultAt = "none"

(* which specification steps a positively identified site class may be *)
SiteSteps(site) ==
  CASE site = "Sign" -> {"SignArtifacts", "SignConda"}
    [] site = "Serialize" -> {"Serialize"}
    [] site = "SerializeSigned" -> {"SerializeSigned"}
    [] site = "Load" -> {"Load"}
    [] site = "AskSigner" -> {"AskSigner"}
    [] site = "FetchKey" -> {"FetchKey"}
    [] site = "CheckAvailable" -> {"CheckAvailable"}
    [] site = "LoadKey" -> {"LoadKey", "ValidateArgs", "CheckKey"}
    [] site = "Validate" -> {"ValidateArgs", "CheckShape", "CheckKey", "CheckSignable", "NormaliseKey", "NormaliseFingerprint",
                             "SignArtifacts", "SignConda", "AskSigner", "FetchKey", "LoadKey", "Attach", "ResetSigs"}
    [] OTHER -> {Steps[i] : i \in DOMAIN Steps}        \* unclassified: any step

ResultMatches ==
  IF proc \in {"repodata", "cli_sign"}
    THEN /\ SeqSet(Ev.result.names) = DOMAIN sigs
         /\ \A i \in DOMAIN Ev.result.names : Ev.result.metas[i] = sigs[Ev.result.names[i]]
    ELSE TRUE

Match ==
  IF Ev.completed /\ Ev.input = "ok"
    THEN status = "done" /\ ResultMatches
  ELSE IF Ev.injected
    THEN /\ status = "failed" /\ faultAt \in SiteSteps(Ev.site)
         /\ (Ev.changed => disk # "old") /\ (~Ev.touched => disk = "old")
    ELSE \* failed (or aborted) by itself on a malformed input
         /\ status = "failed" /\ faultAt = FailsAt(proc, input)
         /\ (Ev.changed => disk # "old")

End == /\ ~fin /\ status \in {"done", "failed"} /\ Match
       /\ PrintT("@@" \o ToJson([eid |-> eid, ok |-> TRUE]))
       /\ fin' = TRUE /\ UNCHANGED <<vars, eid>>
TNext == (~fin /\ Next /\ UNCHANGED <<eid, fin>>) \/ End
=============================================================================
