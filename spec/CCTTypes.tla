--------------------------- MODULE CCTTypes ---------------------------
(***************************************************************************)
(* Abstract domains shared by every module of the conda-content-trust      *)
(* specification: keys, symbolic (Dolev-Yao) signatures, signature-map     *)
(* entry names and values, and the requirement-layer notion of "the set   *)
(* of keys that validly signed this envelope".                             *)
(*                                                                         *)
(* Cryptography is symbolic: a signature value records who made it, over   *)
(* which payload bytes and with which framing (raw ed25519 over the        *)
(* canonical bytes, or ed25519 over the OpenPGP v4 digest).  It is valid   *)
(* for (key, payload, mode) iff all three match and it was not corrupted.  *)
(* Assumption (stated in every evidence file): ed25519 is unforgeable and  *)
(* SHA-256 collision free; modules Gpg / Keys bind the symbols to the real *)
(* primitives.                                                             *)
(***************************************************************************)
EXTENDS Naturals, FiniteSets, Sequences, TLC

CONSTANTS NK,                    \* number of keys in the universe
          NA, NJ                 \* number of alternative-spelling names and of junk names in a signature map
Key == 1..NK
OtherKey(k) == (k % NK) + 1      \* some key different from k (NK >= 2)

(* Signature-map entry values.  shape: how the JSON value looks;          *)
(* by/over/fr/ok: what the 64 signature bytes inside it really are.        *)
Shapes == {"raw", "gpg", "gpgfp", "bad"}
V(shape, by, over, fr, ok) == [shape |-> shape, by |-> by, over |-> over, fr |-> fr, ok |-> ok]
Absent == [shape |-> "absent", by |-> "none", over |-> "-", fr |-> "-", ok |-> FALSE]

(* The presented payload is "P"; "Q" is any other payload.  `by` is        *)
(* relative to the name the entry is filed under: "self" = the key that    *)
(* name spells (for the alternative-spelling and junk names: key 1),       *)
(* "other" = a different key, "none" = nobody (random bytes).              *)
CanonStates ==
  { Absent,
    V("raw",   "self", "P", "raw", TRUE),     \* valid raw signature
    V("gpg",   "self", "P", "gpg", TRUE),     \* valid OpenPGP-wrapped signature
    V("gpgfp", "self", "P", "gpg", TRUE),     \* ... with a see_also fingerprint
    V("gpg",   "self", "P", "raw", TRUE),     \* OpenPGP shape around a raw signature
    V("raw",   "self", "P", "gpg", TRUE),     \* raw shape around an OpenPGP-framed signature
    V("raw",   "self", "Q", "raw", TRUE),     \* raw signature over another payload
    V("gpg",   "self", "Q", "gpg", TRUE),     \* OpenPGP signature over another payload
    V("raw",   "self", "P", "raw", FALSE),    \* corrupted raw
    V("gpg",   "self", "P", "gpg", FALSE),    \* corrupted OpenPGP (signature, header or both)
    V("raw",   "other", "P", "raw", TRUE),    \* mis-filed: made by another key
    V("gpg",   "other", "P", "gpg", TRUE),
    V("bad",   "self", "P", "raw", TRUE),     \* malformed entry around a good raw signature
    V("bad",   "self", "P", "gpg", TRUE) }    \* malformed entry around a good OpenPGP signature

AltStates  == { Absent, V("raw", "self", "P", "raw", TRUE), V("gpg", "self", "P", "gpg", TRUE),
                V("bad", "none", "-", "-", FALSE) }        \* junk filed under another spelling of key 1
JunkStates == { Absent, V("bad", "none", "-", "-", FALSE),
                V("raw", "self", "P", "raw", TRUE), V("gpg", "self", "P", "gpg", TRUE) }

CanonName(k) == <<"c", k>>
AltNames     == {<<"alt", i>> : i \in 1..NA}
JunkNames    == {<<"junk", i>> : i \in 1..NJ}
AltName      == <<"alt", 1>>
JunkName     == <<"junk", 1>>
Names        == {CanonName(k) : k \in Key} \cup AltNames \cup JunkNames
IsCanonName(n) == n[1] = "c"
KeyOf(n)       == n[2]

(* shape predicates: the library's is_gpg_signature / is_signature         *)
GpgShape(v) == v.shape \in {"gpg", "gpgfp"}
AnyShape(v) == v.shape \in {"raw", "gpg", "gpgfp"}
WellFormedFor(gpg, v) == IF gpg THEN GpgShape(v) ELSE AnyShape(v)

(* symbolic cryptographic validity *)
SigValid(v, gpg) == v.ok /\ v.by = "self" /\ v.over = "P" /\ v.fr = (IF gpg THEN "gpg" ELSE "raw")

(***************************************************************************)
(* REQUIREMENT LAYER.  The set of authorized keys that validly signed:     *)
(* declarative, independent of any loop.  sigs : Names -> value.           *)
(***************************************************************************)
Signers(sigs, auth, gpg) ==
  { k \in auth : /\ sigs[CanonName(k)].shape # "absent"
                 /\ WellFormedFor(gpg, sigs[CanonName(k)])
                 /\ SigValid(sigs[CanonName(k)], gpg) }

Meets(sigs, auth, thr, gpg) == Cardinality(Signers(sigs, auth, gpg)) >= thr

(* Strip: keep only the entries that are valid signatures by keys in auth  *)
Strip(sigs, auth, gpg) ==
  [n \in Names |-> IF IsCanonName(n) /\ KeyOf(n) \in Signers(sigs, auth, gpg) THEN sigs[n] ELSE Absent]

(* signature map from a logged list of entries [name |-> <<class, index>>, v |-> <<shape, by, over, fr, ok>>] *)
SigsFromEntries(entries) ==
  [n \in Names |->
     LET S == {i \in DOMAIN entries : entries[i].name = n} IN
     IF S = {} THEN Absent
     ELSE LET v == entries[CHOOSE i \in S : TRUE].v IN V(v[1], v[2], v[3], v[4], v[5])]
SeqToSet(s) == {s[i] : i \in DOMAIN s}
=============================================================================
