----------------------------- MODULE Signing -----------------------------
(***************************************************************************)
(* Envelopes over time (C09, C08): signing.wrap_as_signable, sign_signable,*)
(* caller-side edits of the payload, common.write_metadata_to_file and     *)
(* load_metadata_from_file.                                                *)
(*                                                                         *)
(* payload : identity of the JSON value under "signed"                     *)
(* sigs[k] : what is filed under Canon(k): "none", or the payload identity *)
(*           the raw signature by k was made over                          *)
(* junk    : an entry nobody asked for (stale / foreign) that signing must *)
(*           leave alone                                                   *)
(* file    : snapshot of (payload, sigs, junk) last written, or NoFile     *)
(***************************************************************************)
EXTENDS CCTTypes, Json

CONSTANTS Payloads, WithFiles, Depth, Emit, MUTANT
VARIABLES payload, sigs, junk, file, hist
vars == <<payload, sigs, junk, file, hist>>

NoFile == [payload |-> "none", sigs |-> [k \in Key |-> "none"], junk |-> FALSE]
Snapshot == [payload |-> payload, sigs |-> sigs, junk |-> junk]

(* the envelope as a CCTTypes signature map, so that the verifiers' requirement layer applies *)
SigMap == [n \in Names |->
             IF IsCanonName(n)
               THEN (IF sigs[KeyOf(n)] = "none" THEN Absent
                     ELSE IF sigs[KeyOf(n)] = payload \/ MUTANT = "cached_bytes" THEN V("raw", "self", "P", "raw", TRUE)
                     ELSE V("raw", "self", "Q", "raw", TRUE))
               ELSE IF n = JunkName /\ junk THEN V("bad", "none", "-", "-", FALSE) ELSE Absent]
Current == Signers(SigMap, Key, FALSE)                       \* requirement layer: who validly signed this envelope
AcceptsAt(auth, t) == Meets(SigMap, auth, t, FALSE)

Obs == [payload |-> payload, sigs |-> sigs, junk |-> junk, signers |-> Current,
        file |-> file.payload # "none"]
Log(a) == hist' = Append(hist, a @@ [after |-> [payload |-> payload', sigs |-> sigs', junk |-> junk',
                                               signers |-> {k \in Key : sigs'[k] = payload'}]])

Init == /\ payload \in Payloads /\ sigs = [k \in Key |-> "none"] /\ junk = FALSE
        /\ file = NoFile /\ hist = <<[a |-> "wrap", p |-> payload]>>

Wrap(p) == /\ payload' = p /\ sigs' = [k \in Key |-> "none"] /\ junk' = FALSE
           /\ UNCHANGED file /\ Log([a |-> "wrap", p |-> p])
Sign(k) == /\ sigs' = (CASE MUTANT = "sign_clears" -> [j \in Key |-> IF j = k THEN payload ELSE "none"]
                         [] MUTANT = "sign_other" -> [sigs EXCEPT ![k] = "elsewhere"]
                         [] OTHER -> [sigs EXCEPT ![k] = payload])
           /\ UNCHANGED <<payload, junk, file>> /\ Log([a |-> "sign", k |-> k])
Edit(p) == /\ p # payload /\ payload' = p
           /\ UNCHANGED <<sigs, junk, file>> /\ Log([a |-> "edit", p |-> p])
AddJunk == /\ ~junk /\ junk' = TRUE /\ UNCHANGED <<payload, sigs, file>> /\ Log([a |-> "junk"])
Write   == /\ WithFiles /\ file' = Snapshot /\ UNCHANGED <<payload, sigs, junk>> /\ Log([a |-> "write"])
(* an attempt to store, at the same path, something that cannot be serialised (too deep, not JSON): the call fails and the   *)
(* file last written is still there, byte for byte                                                                         *)
WriteFail == /\ WithFiles /\ file # NoFile
             /\ file' = (IF MUTANT = "failed_write_truncates" THEN NoFile ELSE file)
             /\ UNCHANGED <<payload, sigs, junk>> /\ Log([a |-> "write_fail"])
Load    == /\ WithFiles /\ file # NoFile
           /\ payload' = file.payload /\ junk' = file.junk
           /\ sigs' = IF MUTANT = "lossy_file" THEN [k \in Key |-> IF k = 1 THEN "none" ELSE file.sigs[k]] ELSE file.sigs
           /\ UNCHANGED file /\ Log([a |-> "load"])

Next == /\ Len(hist) < Depth
        /\ \/ \E p \in Payloads : Wrap(p) \/ Edit(p)
           \/ \E k \in Key : Sign(k)
           \/ AddJunk \/ Write \/ Load \/ WriteFail
Spec == Init /\ [][Next]_vars

(* ---------------------------------------------------------------------- *)
(* signer binding: the keys that count are exactly those whose entry was made over the payload now  *)
(* presented - so a signature made over any other value never counts (EditInvalidates), whatever the  *)
(* order or multiplicity of the signing operations that led here                                      *)
SignedNow == {k \in Key : sigs[k] = payload}
SignerBinding == Current = SignedNow
(* order independence: signing is a per-key overwrite, so any two signing operations commute *)
SignResult(s, k) == [s EXCEPT ![k] = payload]
SignCommutes == \A a, b \in Key : SignResult(SignResult(sigs, a), b) = SignResult(SignResult(sigs, b), a)
(* accept exactly for thresholds up to the number of authorized signers, none above *)
Boundary == \A auth \in SUBSET Key : \A t \in 1..(NK + 1) : AcceptsAt(auth, t) <=> t <= Cardinality(SignedNow \cap auth)
(* Sign(k) touches only k's own entry *)
Last == hist'[Len(hist')]
SignLocal == [][Last.a = "sign" => /\ \A j \in Key \ {Last.k} : sigs'[j] = sigs[j]
                                   /\ payload' = payload /\ junk' = junk /\ file' = file]_vars
(* round trip: right after Sign(k) the envelope verifies with k authorized *)
SignEffective == [][Last.a = "sign" => Last.k \in Signers(SigMap', Key, FALSE)]_vars
SignIdempotent == [][\A k \in Key : (hist'[Len(hist')].a = "sign" /\ hist'[Len(hist')].k = k /\ sigs[k] = payload) => sigs' = sigs]_vars
(* any change of the payload makes every earlier signature stop counting *)
EditInvalidates == [][payload' # payload /\ sigs' = sigs => Signers(SigMap', Key, FALSE) \cap Signers(SigMap, Key, FALSE) = {}]_vars
(* persistence: the file holds exactly what was written; loading restores it; trust status unchanged *)
RoundTrip == [][(file' # file => file' = Snapshot) /\ (file' = file /\ Snapshot' # Snapshot /\ hist'[Len(hist')].a = "load" => Snapshot' = file)]_vars
AddSigPreserves == [][\A k \in Key : (hist'[Len(hist')].a = "sign" /\ hist'[Len(hist')].k = k)
                                      => \A j \in Key \ {k} : (j \in Current <=> j \in Signers(SigMap', Key, FALSE))]_vars
EmitPath == (Emit /\ Len(hist) = Depth) => PrintT("@@" \o ToJson(hist))
=============================================================================
