------------------------------ MODULE Root ------------------------------
(***************************************************************************)
(* authentication.verify_root(trusted, offered): requirement layer RootIff *)
(* (C03) and the stage machine of the implementation layer.                *)
(*                                                                         *)
(* A root document is abstracted to its declared type, version, root rule  *)
(* (key set + threshold, possibly missing: D4) and a well-formedness       *)
(* class; the offered envelope additionally carries a signature map over   *)
(* Names whose entries are symbolic signatures over the offered content.   *)
(* The threshold tests use CCTTypes!Meets, which Verify.tla shows to be    *)
(* what the verify_signable loop computes.                                 *)
(***************************************************************************)
EXTENDS RootReq, Json

CONSTANTS MaxThr, NWF, Emit, MUTANT, SigStatesSel

VARIABLES case, pc, outcome
vars == <<case, pc, outcome>>


(* per-key entry states for root envelopes (OpenPGP mode is what counts) *)
RootSigStates ==
  IF SigStatesSel = "full" THEN CanonStates
  ELSE { Absent,
         V("gpg", "self", "P", "gpg", TRUE),      \* valid OpenPGP signature
         V("raw", "self", "P", "raw", TRUE),      \* decoy: valid *raw* signature by the right key
         V("gpg", "self", "Q", "gpg", TRUE),      \* OpenPGP signature over another root's content
         V("gpg", "self", "P", "gpg", FALSE),     \* corrupted
         V("gpg", "other", "P", "gpg", TRUE) }    \* mis-filed


AllSigned == [n \in Names |-> IF IsCanonName(n) THEN V("gpg", "self", "P", "gpg", TRUE) ELSE Absent]

(* main product: both well-formed roots.  (Written with \E so that TLC enumerates the initial states *)
(* directly instead of first building and normalising a set of records.)                            *)
InitMain ==
  \E tv \in 1..2, trk \in SUBSET Key, trt \in 1..MaxThr, nv \in 1..4, nrk \in SUBSET Key, nrt \in 1..MaxThr,
     cs \in [Key -> RootSigStates], j \in [JunkNames -> {Absent, V("raw", "self", "P", "raw", TRUE)}],
     al \in [AltNames -> {Absent, V("gpg", "self", "P", "gpg", TRUE)}] :        \* a valid signature by key 1 filed under another spelling of key 1
     case = [t |-> Doc("root", tv, trk, trt, TRUE, "ok", 0), n |-> Doc("root", nv, nrk, nrt, TRUE, "ok", 0),
             sigs |-> [n \in Names |-> IF IsCanonName(n) THEN cs[KeyOf(n)] ELSE IF n \in AltNames THEN al[n] ELSE j[n]]]
(* declared types, missing root rule, malformed documents (same class on both sides when both are   *)
(* malformed): everything else held at "fully signed successor"                                      *)
InitSide ==
  \E tt \in {"root", "key_mgr"}, nt \in {"root", "key_mgr"}, th \in BOOLEAN, nh \in BOOLEAN, nv \in {1, 2},
     w \in 0..NWF, side \in {"none", "t", "n", "both"} :
     /\ (w = 0) = (side = "none")
     /\ (tt = "key_mgr" => th) /\ (nt = "key_mgr" => nh)
     /\ case = [t |-> IF side \in {"t", "both"} THEN Doc(tt, 1, Key, 1, th, "bad", w) ELSE Doc(tt, 1, Key, 1, th, "ok", 0),
                n |-> IF side \in {"n", "both"} THEN Doc(nt, nv, Key, 1, nh, "bad", w) ELSE Doc(nt, nv, Key, 1, nh, "ok", 0),
                sigs |-> AllSigned]

(* ------------------------------ implementation layer -------------------- *)
Fail(e) == pc' = "done" /\ outcome' = e /\ UNCHANGED case
Goto(p) == pc' = p /\ UNCHANGED <<case, outcome>>

CaseJson(c) == [ t |-> c.t, n |-> c.n,
                 e |-> [k \in Key |-> LET v == c.sigs[CanonName(k)] IN <<v.shape, v.by, v.over, v.fr, v.ok>>],
                 alt |-> LET v == c.sigs[AltName] IN <<v.shape, v.by, v.over, v.fr, v.ok>>,
                 junk |-> LET v == c.sigs[JunkName] IN <<v.shape, v.by, v.over, v.fr, v.ok>>,
                 old_signers |-> Signers(c.sigs, c.t.rk, TRUE), new_signers |-> Signers(c.sigs, c.n.rk, TRUE),
                 allowed |-> Allowed(c) ]

Init == /\ (InitMain \/ InitSide)
        /\ pc = "CheckTrusted" /\ outcome = "none"

CheckTrusted == /\ pc = "CheckTrusted"
                /\ (Emit => PrintT("@@" \o ToJson(CaseJson(case))))
                /\ IF WF(case.t) THEN Goto("CheckNew") ELSE Fail("ValueError")
CheckNew     == pc = "CheckNew" /\ IF WF(case.n) THEN Goto("BothRoot") ELSE Fail("ValueError")
BothRootStep == pc = "BothRoot" /\ IF BothRoot(case) THEN Goto("HasRootRule") ELSE Fail("ValueError")
HasRootRule  == pc = "HasRootRule" /\ IF HasRules(case) THEN Goto("Successor") ELSE Fail("ValueError")
Successor    == pc = "Successor" /\
                IF (CASE MUTANT = "gt"  -> case.n.ver > case.t.ver
                      [] MUTANT = "ge"  -> case.n.ver >= case.t.ver
                      [] OTHER -> case.n.ver = case.t.ver + 1)
                  THEN Goto("OldRule") ELSE Fail("MetadataVerificationError")
OldRule      == pc = "OldRule" /\
                IF (CASE MUTANT = "thr_from_new"  -> Meets(case.sigs, case.t.rk, case.n.rt, TRUE)
                      [] MUTANT = "keys_from_new" -> Meets(case.sigs, case.n.rk, case.t.rt, TRUE)
                      [] MUTANT = "rawmode"       -> Meets(case.sigs, case.t.rk, case.t.rt, FALSE)
                      [] OTHER -> Meets(case.sigs, case.t.rk, case.t.rt, TRUE))
                  THEN Goto("NewRule") ELSE Fail("SignatureError")
NewRule      == pc = "NewRule" /\
                IF MUTANT = "noself" \/ Meets(case.sigs, case.n.rk, case.n.rt, TRUE)
                  THEN Fail("accept") ELSE Fail("SignatureError")

Next == CheckTrusted \/ CheckNew \/ BothRootStep \/ HasRootRule \/ Successor \/ OldRule \/ NewRule
Spec == Init /\ [][Next]_vars /\ WF_vars(Next)

IffSound    == (pc = "done" /\ outcome = "accept") => RootIff(case)          \* "only if"
IffComplete == (pc = "done" /\ RootIff(case)) => outcome = "accept"          \* "if"
Refines     == pc = "done" => outcome \in Allowed(case)
(* nothing the untrusted document says about itself substitutes for the trusted rule *)
TrustedRuleDecides == (pc = "done" /\ outcome = "accept") => Cardinality(Signers(case.sigs, case.t.rk, TRUE)) >= case.t.rt
StripMonotone == RootIff(case) =>
   LET s2 == [n \in Names |-> IF IsCanonName(n) /\ KeyOf(n) \in Signers(case.sigs, case.t.rk, TRUE) \cup Signers(case.sigs, case.n.rk, TRUE)
                                THEN case.sigs[n] ELSE Absent]
   IN RootIff([case EXCEPT !.sigs = s2])
Terminates == <>(pc = "done")
=============================================================================
