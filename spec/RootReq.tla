----------------------------- MODULE RootReq -----------------------------
(***************************************************************************)
(* Requirement layer for root updates (C03): pure operators, no variables, *)
(* shared by Root (the verify_root stage machine), RootChain (the client   *)
(* state machine over histories) and their trace specifications.           *)
(***************************************************************************)
EXTENDS CCTTypes

Doc(t, v, rk, rt, hasroot, wf, wfc) == [type |-> t, ver |-> v, rk |-> rk, rt |-> rt, hasroot |-> hasroot, wf |-> wf, wfc |-> wfc]
ArgFamilies == {"TypeError", "ValueError"}
DocFamilies == {"TypeError", "ValueError", "SignatureError", "MetadataVerificationError", "UnknownRoleError", "CCT_Error"}
(* ------------------------------ requirement layer ----------------------- *)
WF(d) == d.wf = "ok"
BothRoot(c) == c.t.type = "root" /\ c.n.type = "root"
HasRules(c) == c.t.hasroot /\ c.n.hasroot
RootIff(c) ==
  /\ WF(c.t) /\ WF(c.n) /\ BothRoot(c) /\ HasRules(c)
  /\ c.n.ver = c.t.ver + 1
  /\ Meets(c.sigs, c.t.rk, c.t.rt, TRUE)
  /\ Meets(c.sigs, c.n.rk, c.n.rt, TRUE)

(* an entry filed under something that is not a key but carrying a well-formed value: whether the schema *)
(* tolerates such names is unspecified (C14), so a TypeError/ValueError is allowed as well               *)
HasNonKeyName(c) == \E n \in AltNames \cup JunkNames : c.sigs[n].shape # "absent"
Allowed(c) ==
  IF RootIff(c) THEN (IF HasNonKeyName(c) THEN {"accept"} \cup ArgFamilies ELSE {"accept"})
  ELSE IF ~(WF(c.t) /\ WF(c.n)) THEN ArgFamilies
  ELSE IF ~BothRoot(c) THEN DocFamilies         \* "not root type": any documented family
  ELSE IF ~HasRules(c) THEN DocFamilies         \* the checker does not demand a root rule (D4): any documented family
  ELSE (IF c.n.ver # c.t.ver + 1 THEN {"MetadataVerificationError"} ELSE {})
       \cup (IF ~(Meets(c.sigs, c.t.rk, c.t.rt, TRUE) /\ Meets(c.sigs, c.n.rk, c.n.rt, TRUE))
               THEN {"SignatureError"} ELSE {})

=============================================================================
