------------------------------ MODULE Canon ------------------------------
(***************************************************************************)
(* The canonical serialization (C07) transcribed from the published       *)
(* format: UTF-8 of ASCII-escaped JSON, object members sorted by key       *)
(* (code-point order), two-space indentation, "," and ": " separators.     *)
(*                                                                         *)
(* A JSON value is a record [t, a, c, m]:                                  *)
(*   t : "null" | "true" | "false" | "int" | "float" | "str" | "arr" | "obj"*)
(*   a : for numbers, the token's ASCII codes (numbers are opaque tokens:  *)
(*       arbitrary-size integers as digit strings, floats as repr tokens)  *)
(*   c : for strings, the sequence of Unicode code points (lone surrogates *)
(*       allowed, but never a high surrogate directly followed by a low    *)
(*       one: no JSON parser returns that)                                 *)
(*   m : for arrays/objects, the members IN REPRESENTATION (insertion)     *)
(*       ORDER, each [k |-> key code points, v |-> value]                  *)
(* Ser(v, level) yields the sequence of output byte codes.                 *)
(***************************************************************************)
EXTENDS Naturals, Sequences, SequencesExt, FiniteSets, TLC, Json

CONSTANTS Tier, MUTANT

V(t, a, c, m) == [t |-> t, a |-> a, c |-> c, m |-> m]
Null == V("null", <<>>, <<>>, <<>>)
True == V("true", <<>>, <<>>, <<>>)
False == V("false", <<>>, <<>>, <<>>)
Num(t, codes) == V(t, codes, <<>>, <<>>)
Str(cps) == V("str", <<>>, cps, <<>>)
Arr(vals) == V("arr", <<>>, <<>>, [i \in DOMAIN vals |-> [k |-> <<>>, v |-> vals[i]]])
Obj(members) == V("obj", <<>>, <<>>, members)      \* members: sequence of [k, v]

HexCode(d) == IF d < 10 THEN 48 + d ELSE 87 + d            \* lower-case hex digit
Hex4(n) == <<HexCode((n \div 4096) % 16), HexCode((n \div 256) % 16), HexCode((n \div 16) % 16), HexCode(n % 16)>>
U(n) == <<92, 117>> \o Hex4(n)                              \* \uXXXX
Esc(cp) ==
  CASE cp = 34 -> <<92, 34>>  [] cp = 92 -> <<92, 92>>
    [] cp = 10 -> <<92, 110>> [] cp = 13 -> <<92, 114>> [] cp = 9 -> <<92, 116>>
    [] cp = 8  -> <<92, 98>>  [] cp = 12 -> <<92, 102>>
    [] cp >= 32 /\ cp < 127 -> <<cp>>
    [] cp < 65536 -> U(cp)
    [] OTHER -> (IF MUTANT = "astral_single" THEN U(cp % 65536)
                 ELSE U(55296 + ((cp - 65536) \div 1024)) \o U(56320 + ((cp - 65536) % 1024)))
RECURSIVE EscAll(_)
EscAll(cps) == IF cps = <<>> THEN <<>> ELSE Esc(Head(cps)) \o EscAll(Tail(cps))
Quote(cps) == <<34>> \o EscAll(cps) \o <<34>>

RECURSIVE Spaces(_)
Spaces(n) == IF n = 0 THEN <<>> ELSE <<32, 32>> \o Spaces(n - 1)
IndentUnit == IF MUTANT = "indent4" THEN 2 ELSE 1
Indent(level) == Spaces(level * IndentUnit)

(* code-point lexicographic order on keys *)
RECURSIVE LexLess(_, _)
LexLess(a, b) == IF a = <<>> THEN b # <<>>
                 ELSE IF b = <<>> THEN FALSE
                 ELSE IF Head(a) # Head(b) THEN Head(a) < Head(b)
                 ELSE LexLess(Tail(a), Tail(b))
(* the same keys in UTF-16 code-unit order (what a port to a UTF-16 language would do) - mutant only *)
Units(cp) == IF cp < 65536 THEN <<cp>> ELSE <<55296 + ((cp - 65536) \div 1024), 56320 + ((cp - 65536) % 1024)>>
RECURSIVE ToUnits(_)
ToUnits(cps) == IF cps = <<>> THEN <<>> ELSE Units(Head(cps)) \o ToUnits(Tail(cps))
KeyLess(x, y) == IF MUTANT = "utf16_sort" THEN LexLess(ToUnits(x.k), ToUnits(y.k)) ELSE LexLess(x.k, y.k)
Sorted(members) == IF MUTANT = "nosort" THEN members ELSE SortSeq(members, KeyLess)

ItemSep == IF MUTANT = "compact_sep" THEN <<44>> ELSE <<44, 10>>
KVSep == IF MUTANT = "colon_only" THEN <<58>> ELSE <<58, 32>>

RECURSIVE Ser(_, _), SerItems(_, _, _, _)
SerItems(ms, i, level, isobj) ==
  IF i > Len(ms) THEN <<>>
  ELSE (IF i > 1 THEN ItemSep ELSE <<>>)
       \o Indent(level)
       \o (IF isobj THEN Quote(ms[i].k) \o KVSep ELSE <<>>)
       \o Ser(ms[i].v, level)
       \o SerItems(ms, i + 1, level, isobj)
Ser(v, level) ==
  CASE v.t = "null" -> <<110, 117, 108, 108>>
    [] v.t = "true" -> <<116, 114, 117, 101>>
    [] v.t = "false" -> <<102, 97, 108, 115, 101>>
    [] v.t \in {"int", "float"} -> v.a
    [] v.t = "str" -> Quote(v.c)
    [] v.t = "arr" -> IF v.m = <<>> THEN <<91, 93>>
                      ELSE <<91, 10>> \o SerItems(v.m, 1, level + 1, FALSE) \o <<10>> \o Indent(level) \o <<93>>
    [] v.t = "obj" -> IF v.m = <<>> THEN <<123, 125>>
                      ELSE <<123, 10>> \o SerItems(Sorted(v.m), 1, level + 1, TRUE) \o <<10>> \o Indent(level) \o <<125>>
Canon(v) == Ser(v, 0)

(* ----------------------------- bounded domain -------------------------- *)
Alphabet == <<34, 92, 47, 0, 10, 9, 127, 97, 101, 233, 769, 8491, 8232, 65535, 128512, 55296, 57343>>   \* incl. e + U+0301 (NFD of U+00E9) and U+212B (a singleton)
CPs == {Alphabet[i] : i \in DOMAIN Alphabet}
IsHigh(cp) == cp >= 55296 /\ cp <= 56319
IsLow(cp) == cp >= 56320 /\ cp <= 57343
ParserString(s) == \A i \in 1..(Len(s) - 1) : ~(IsHigh(s[i]) /\ IsLow(s[i + 1]))
Strings == {s \in UNION {[1..n -> CPs] : n \in 0..(IF Tier = "thorough" THEN 3 ELSE 2)} : ParserString(s)}
Digits(s) == s      \* ASCII codes given literally below
Ints == { <<48>>, <<45, 49>>, <<55>>, <<52, 50>>, <<50, 49, 52, 55, 52, 56, 51, 54, 52, 56>>,
          <<49, 56, 52, 52, 54, 55, 52, 52, 48, 55, 51, 55, 48, 57, 53, 53, 49, 54, 49, 55>>,
          <<45, 49, 48, 48, 48, 48, 48, 48, 48, 48, 48, 48, 48, 48, 48, 48, 48, 48, 48, 48, 48, 48, 48, 48, 48, 48, 48, 48, 48, 48, 48, 48>> }
Floats == { <<49, 46, 53>>, <<45, 48, 46, 48>>, <<49, 101, 43, 49, 54>>, <<78, 97, 78>>, <<53, 101, 45, 51, 50, 52>> }
SmallAtoms == <<Null, True, Num("int", <<48>>), Num("int", <<45, 49>>), Num("float", <<49, 46, 53>>), Str(<<>>), Str(<<97>>), Str(<<34>>),
                Str(<<128512>>), Str(<<55296>>), Str(<<62976>>)>>
Keys == <<<<>>, <<97>>, <<98>>, <<97, 97>>, <<233>>, <<65535>>, <<128512>>, <<34>>, <<97, 10>>, <<57343>>, <<65>>>>
Distinct(f) == \A i, j \in DOMAIN f : i # j => f[i] # f[j]
Inner == <<Arr(<<>>), Obj(<<>>), Arr(<<Null>>), Arr(<<Str(<<97>>), Num("int", <<55>>)>>),
           Obj(<<[k |-> <<98>>, v |-> True], [k |-> <<97>>, v |-> Str(<<233>>)]>>),
           Obj(<<[k |-> <<128512>>, v |-> Null], [k |-> <<65535>>, v |-> Null]>>),
           Arr(<<Arr(<<>>), Obj(<<>>)>>), Obj(<<[k |-> <<>>, v |-> Arr(<<False>>)]>>)>>

VARIABLES v, perm, pc
vars == <<v, perm, pc>>

MaxMembers == IF Tier = "thorough" THEN 3 ELSE 2
InitAtom == \/ v \in {Null, True, False}
            \/ \E a \in Ints : v = Num("int", a)
            \/ \E a \in Floats : v = Num("float", a)
            \/ \E s \in Strings : v = Str(s)
InitArr  == \E n \in 0..MaxMembers : \E f \in [1..n -> DOMAIN SmallAtoms] : v = Arr([i \in 1..n |-> SmallAtoms[f[i]]])
InitObj  == \E n \in 0..MaxMembers : \E ks \in [1..n -> DOMAIN Keys] : \E f \in [1..n -> 1..5] :
              Distinct(ks) /\ v = Obj([i \in 1..n |-> [k |-> Keys[ks[i]], v |-> SmallAtoms[f[i]]]])
InitDeep == \E a \in DOMAIN Inner, b \in DOMAIN Inner, k1 \in 1..3, k2 \in 4..7, w \in {"arr", "obj", "arr1", "obj1", "objarr"} :
              v = CASE w = "arr" -> Arr(<<Inner[a], Inner[b]>>)
                    [] w = "obj" -> Obj(<<[k |-> Keys[k2], v |-> Inner[a]], [k |-> Keys[k1], v |-> Inner[b]]>>)
                    [] w = "arr1" -> Arr(<<Arr(<<Inner[a]>>), SmallAtoms[k1]>>)
                    [] w = "obj1" -> Obj(<<[k |-> Keys[k1], v |-> Obj(<<[k |-> Keys[k2], v |-> Inner[a]]>>)]>>)
                    [] w = "objarr" -> Obj(<<[k |-> Keys[k2], v |-> Arr(<<Inner[a], Obj(<<[k |-> Keys[k1], v |-> Inner[b]]>>)>>)]>>)
Init == (InitAtom \/ InitArr \/ InitObj \/ InitDeep) /\ perm = 0 /\ pc = "new"

(* representation-order independence: every permutation of the top-level members serializes identically *)
Permuted(x, p) == IF x.t = "obj" /\ Len(x.m) > 1 THEN [x EXCEPT !.m = [i \in DOMAIN x.m |-> x.m[p[i]]]] ELSE x
Perms(n) == {p \in [1..n -> 1..n] : Distinct(p)}
OrderIndependent == v.t = "obj" => \A p \in Perms(Len(v.m)) : Canon(Permuted(v, p)) = Canon(v)

Emit == /\ pc = "new" /\ pc' = "done" /\ UNCHANGED <<v, perm>>
        /\ PrintT("@@" \o ToJson([v |-> v, bytes |-> Canon(v)]))
Next == Emit
Spec == Init /\ [][Next]_vars

(* output is pure ASCII, never empty *)
AsciiOnly == LET b == Canon(v) IN Len(b) > 0 /\ \A i \in DOMAIN b : b[i] < 128
(* structural injectivity on a sub-domain small enough for the quadratic check: two member sequences that are *)
(* not permutations of each other never share bytes                                                           *)
SameValue(x, y) == x = y \/ (x.t = "obj" /\ y.t = "obj" /\ Len(x.m) = Len(y.m) /\ \E p \in Perms(Len(x.m)) : Permuted(x, p) = y)
SubDomain == [i \in 1..(Len(SmallAtoms) + Len(Inner)) |-> IF i <= Len(SmallAtoms) THEN SmallAtoms[i] ELSE Inner[i - Len(SmallAtoms)]]
InjectiveOnSub == \A i, j \in DOMAIN SubDomain : i < j => Canon(SubDomain[i]) # Canon(SubDomain[j])
ASSUME InjectiveOnSub
InjectiveVsSub == \A i \in DOMAIN SubDomain : Canon(SubDomain[i]) = Canon(v) => SameValue(SubDomain[i], v)
=============================================================================
