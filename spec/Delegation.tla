--------------------------- MODULE Delegation ---------------------------
(***************************************************************************)
(* authentication.verify_delegation(role, untrusted, trusted, gpg):        *)
(* requirement layer (RoleExact, TypeBound, StripMonotone, Allowed) and    *)
(* the stage machine of the implementation layer.                          *)
(*                                                                         *)
(* trusted : rule for the *named* role (or none) + an optional decoy rule  *)
(*           for some other role that lists every key with threshold 1;    *)
(* untrusted: a plain signed payload, well-formed delegating metadata of a *)
(*           declared type (whose own delegations list every key - decoys  *)
(*           again), or something that only looks like delegating metadata.*)
(***************************************************************************)
EXTENDS CCTTypes, Json

CONSTANTS MaxThr, NWF, NEnvWF, Emit, MUTANT
VARIABLES case, pc, outcome
vars == <<case, pc, outcome>>

Roles == {"root", "key_mgr", "pkg_mgr"}
None == [keys |-> {}, thr |-> 0]            \* "no delegation of that name"
ArgFamilies == {"TypeError", "ValueError"}

DSigStates == { Absent,
                V("raw", "self", "P", "raw", TRUE), V("gpg", "self", "P", "gpg", TRUE),
                V("raw", "self", "Q", "raw", TRUE), V("raw", "self", "P", "raw", FALSE),
                V("raw", "other", "P", "raw", TRUE), V("bad", "self", "P", "raw", TRUE) }
DAltStates  == { Absent, V("raw", "self", "P", "raw", TRUE) }
DJunkStates == { Absent, V("bad", "none", "-", "-", FALSE), V("raw", "self", "P", "raw", TRUE) }

(* ------------------------------ requirement layer ----------------------- *)
ArgsOK(c)       == c.argbad = "none" /\ c.twf = 0 /\ c.uenv = 0
TypeMismatch(c) == c.ukind = "deleg" /\ c.utype # c.role
Unknown(c)      == c.trule = None
MeetsRule(c)    == ~Unknown(c) /\ Meets(c.sigs, c.trule.keys, c.trule.thr, c.gpg)
Wrong(c) == (IF TypeMismatch(c) THEN {"MetadataVerificationError"} ELSE {})
            \cup (IF Unknown(c) THEN {"UnknownRoleError"} ELSE IF ~MeetsRule(c) THEN {"SignatureError"} ELSE {})
Allowed(c) == IF ~ArgsOK(c) THEN ArgFamilies ELSE IF Wrong(c) = {} THEN {"accept"} ELSE Wrong(c)
Stripped(c) == IF Unknown(c) THEN c ELSE [c EXCEPT !.sigs = Strip(c.sigs, c.trule.keys, c.gpg)]

(* ------------------------------ implementation layer -------------------- *)
Fail(e) == pc' = "done" /\ outcome' = e /\ UNCHANGED case
Goto(p) == pc' = p /\ UNCHANGED <<case, outcome>>
AllValuesWellFormed(c) == \A n \in Names : c.sigs[n].shape \in {"absent", "raw", "gpg", "gpgfp"}

CaseJson(c) == [ role |-> c.role, trule |-> c.trule, drule |-> c.drule, ukind |-> c.ukind, utype |-> c.utype,
                 argbad |-> c.argbad, twf |-> c.twf, uenv |-> c.uenv, uwf |-> c.uwf, gpg |-> c.gpg,
                 e |-> [k \in Key |-> LET v == c.sigs[CanonName(k)] IN <<v.shape, v.by, v.over, v.fr, v.ok>>],
                 alt |-> LET v == c.sigs[AltName] IN <<v.shape, v.by, v.over, v.fr, v.ok>>,
                 junk |-> LET v == c.sigs[JunkName] IN <<v.shape, v.by, v.over, v.fr, v.ok>>,
                 signers |-> IF Unknown(c) THEN {} ELSE Signers(c.sigs, c.trule.keys, c.gpg),
                 mismatch |-> TypeMismatch(c), unknown |-> Unknown(c), meets |-> MeetsRule(c), argsok |-> ArgsOK(c),
                 allowed |-> Allowed(c), allowed_stripped |-> Allowed(Stripped(c)) ]

Rules == {None} \cup [keys : SUBSET Key, thr : 1..MaxThr]
InitMain ==
  \E role \in Roles, tr \in Rules,
     uk \in {<<"plain", "-", 0>>, <<"deleg", "root", 0>>, <<"deleg", "key_mgr", 0>>, <<"delegish", "root", 1>>, <<"delegish", "key_mgr", 2>>},
     cs \in [Key -> DSigStates], a \in [AltNames -> DAltStates], j \in [JunkNames -> DJunkStates], g \in BOOLEAN :
     case = [role |-> role, trule |-> tr, drule |-> TRUE, ukind |-> uk[1], utype |-> uk[2], argbad |-> "none", twf |-> 0, uenv |-> 0,
             uwf |-> uk[3], gpg |-> g,
             sigs |-> [n \in Names |-> IF IsCanonName(n) THEN cs[KeyOf(n)] ELSE IF n \in AltNames THEN a[n] ELSE j[n]]]
FullySigned == [n \in Names |-> IF IsCanonName(n) THEN V("raw", "self", "P", "raw", TRUE) ELSE Absent]
InitSide ==
  \E role \in Roles, ab \in {"none", "role", "gpg"}, tw \in 0..NWF, ue \in 0..NEnvWF, uk \in {<<"plain", "-">>, <<"deleg", "root">>, <<"deleg", "key_mgr">>},
     unknown \in BOOLEAN :
     /\ (ab # "none") \/ tw # 0 \/ ue # 0
     /\ case = [role |-> role, trule |-> IF unknown THEN None ELSE [keys |-> Key, thr |-> 1], drule |-> TRUE, ukind |-> uk[1], utype |-> uk[2],
                argbad |-> ab, twf |-> tw, uenv |-> ue, uwf |-> 0, gpg |-> FALSE, sigs |-> FullySigned]

Init == (InitMain \/ InitSide) /\ pc = "ArgCheck" /\ outcome = "none"

ArgCheck      == /\ pc = "ArgCheck"
                 /\ (Emit => PrintT("@@" \o ToJson(CaseJson(case))))
                 /\ IF case.argbad = "none" THEN Goto("CheckTrusted") ELSE Fail("TypeError")
CheckTrusted  == pc = "CheckTrusted" /\ IF case.twf = 0 THEN Goto("CheckEnvelope") ELSE Fail("ValueError")
CheckEnvelope == pc = "CheckEnvelope" /\ IF case.uenv = 0 THEN Goto("TypeVsRole") ELSE Fail("TypeError")
(* the type test is performed iff the SIGNED PART ALONE is well-formed delegating metadata (requirement; the   *)
(* mutant "whole_envelope" is the defect D2: the test consulted the unsigned signature map as well)            *)
TypeVsRole    == pc = "TypeVsRole" /\
                 IF /\ case.ukind = "deleg"
                    /\ (MUTANT = "whole_envelope" => AllValuesWellFormed(case))
                    /\ MUTANT # "notypecheck"
                    /\ case.utype # case.role
                   THEN Fail("MetadataVerificationError") ELSE Goto("LookupRole")
LookupRole    == pc = "LookupRole" /\
                 IF Unknown(case) /\ ~(MUTANT \in {"fallback_role", "unknown_ok"} /\ (MUTANT = "fallback_role" => case.drule))
                   THEN Fail("UnknownRoleError") ELSE Goto("Threshold")
EffKeys == CASE MUTANT = "union_roles" /\ case.drule -> Key
             [] MUTANT = "untrusted_keys" /\ case.ukind = "deleg" -> Key
             [] MUTANT = "fallback_role" /\ Unknown(case) -> Key
             [] OTHER -> case.trule.keys
EffThr  == CASE MUTANT = "untrusted_keys" /\ case.ukind = "deleg" -> 1
             [] MUTANT = "fallback_role" /\ Unknown(case) -> 1
             [] MUTANT = "unknown_ok" /\ Unknown(case) -> 0
             [] OTHER -> case.trule.thr
Threshold     == pc = "Threshold" /\
                 IF Meets(case.sigs, EffKeys, EffThr, case.gpg) THEN Fail("accept") ELSE Fail("SignatureError")

Next == ArgCheck \/ CheckTrusted \/ CheckEnvelope \/ TypeVsRole \/ LookupRole \/ Threshold
Spec == Init /\ [][Next]_vars /\ WF_vars(Next)

(* C05 *)
RoleExact == (pc = "done" /\ outcome = "accept") => (ArgsOK(case) /\ MeetsRule(case))
UnknownReported == (pc = "done" /\ ArgsOK(case) /\ Unknown(case)) => outcome \in {"UnknownRoleError", "MetadataVerificationError"}
ProperAccepted == (pc = "done" /\ Allowed(case) = {"accept"}) => outcome = "accept"
(* C06 *)
TypeBound == (pc = "done" /\ TypeMismatch(case)) => outcome # "accept"
StripMonotone == Allowed(case) = {"accept"} => Allowed(Stripped(case)) = {"accept"}
(* C13 *)
Refines == pc = "done" => outcome \in Allowed(case)
Terminates == <>(pc = "done")
=============================================================================
