-------------------------------- MODULE Cli --------------------------------
(***************************************************************************)
(* The command-line front end (C17): verify-metadata's dispatch on the     *)
(* untrusted file's declared type, the mapping from the library's verdict  *)
(* to exit status and message, for every way the tool can be started, and  *)
(* the signing subcommands' "exit zero only if signed".                    *)
(*                                                                         *)
(* verdict is the LIBRARY's outcome on the pair of files (the requirement  *)
(* layers of RootReq / Delegation decide it; the replay takes it from the  *)
(* same files in process).                                                 *)
(***************************************************************************)
EXTENDS Integers, Sequences, FiniteSets, TLC, Json

CONSTANTS MUTANT

EntryPoints == {"console_script", "python_m_package", "python_m_cli", "in_process"}
Verdicts == {"accept", "SignatureError", "MetadataVerificationError", "UnknownRoleError", "TypeError", "ValueError", "unreadable"}
Commands == {"verify-metadata", "sign-artifacts", "gpg-sign", "gpg-key-lookup"}
(* file-pair classes for verify-metadata: declared type of the untrusted file x library verdict *)
UTypes == {"root", "key_mgr", "other", "none"}       \* none: not JSON / no signed.type
SignOutcomes == {"signed", "bad_key_file", "missing_key_file", "bad_repodata", "missing_repodata", "no_sslib", "not_signable", "signer_fails",
                 "found", "key_lookup_fails", "bad_fingerprint"}       \* the last three: gpg-key-lookup (found = the key's value was printed)

VARIABLES entry, cmd, utype, verdict, signout, pc, api, status, said
vars == <<entry, cmd, utype, verdict, signout, pc, api, status, said>>

Feasible(ut, v) ==
  CASE ut = "none" -> v = "unreadable"
    [] ut = "root" -> v \in {"accept", "SignatureError", "MetadataVerificationError", "TypeError", "ValueError"}
    [] OTHER -> v \in {"accept", "SignatureError", "UnknownRoleError", "TypeError", "ValueError"}   \* role := declared type, so no type mismatch

Init == /\ entry \in EntryPoints /\ cmd \in Commands
        /\ \/ (cmd = "verify-metadata" /\ utype \in UTypes /\ verdict \in Verdicts /\ Feasible(utype, verdict) /\ signout = "signed")
           \/ (cmd = "sign-artifacts" /\ utype = "none" /\ verdict = "accept" /\ signout \in {"signed", "bad_key_file", "missing_key_file", "bad_repodata", "missing_repodata"})
           \/ (cmd = "gpg-sign" /\ utype = "none" /\ verdict = "accept" /\ signout \in {"signed", "no_sslib", "not_signable", "signer_fails", "bad_repodata"})
           \/ (cmd = "gpg-key-lookup" /\ utype = "none" /\ verdict = "accept" /\ signout \in {"found", "no_sslib", "key_lookup_fails", "bad_fingerprint"})
        /\ pc = "dispatch" /\ api = "none" /\ status = -1 /\ said = "none"

(* cli_verify_metadata: root-chain check when the untrusted file declares type root, else delegation check *)
Dispatch == /\ pc = "dispatch"
            /\ IF cmd = "verify-metadata"
                 THEN api' = (IF utype = "none" THEN "crash" ELSE IF utype = "root" /\ MUTANT # "dispatch_on_trusted" THEN "verify_root" ELSE "verify_delegation")
                 ELSE api' = cmd
            /\ pc' = "run" /\ UNCHANGED <<entry, cmd, utype, verdict, signout, status, said>>
(* the function's own return value / exception *)
Run == /\ pc = "run"
       /\ IF cmd = "verify-metadata"
            THEN IF verdict = "accept" THEN status' = 0 /\ said' = "success"
                 ELSE IF verdict \in {"SignatureError", "MetadataVerificationError", "UnknownRoleError"}
                        THEN (IF MUTANT = "swallow" THEN status' = 0 ELSE status' = (IF api = "verify_root" THEN 10 ELSE 20)) /\ said' = "failure"
                 ELSE status' = 1 /\ said' = "traceback"                                     \* uncaught TypeError/ValueError/OSError
            ELSE IF signout \in {"signed", "found"} THEN status' = 0 /\ said' = (IF signout = "found" THEN "keyvalue" ELSE "none")
                 ELSE IF signout = "key_lookup_fails" /\ MUTANT = "lookup_swallowed" THEN status' = 0 /\ said' = "none"
                 ELSE IF signout = "bad_key_file" /\ MUTANT = "abort_returns_none" THEN status' = 0 /\ said' = "aborted"
                 ELSE status' = 1 /\ said' = "error"
       /\ pc' = "exit" /\ UNCHANGED <<entry, cmd, utype, verdict, signout, api>>
(* each entry point must hand the function's status to the process exit status *)
Exit == /\ pc = "exit"
        /\ status' = IF entry = "python_m_package" /\ MUTANT = "drop_status" /\ said # "traceback" /\ said # "error" THEN 0 ELSE status
        /\ pc' = "done" /\ UNCHANGED <<entry, cmd, utype, verdict, signout, api, said>>
        /\ PrintT("@@" \o ToJson([entry |-> entry, cmd |-> cmd, utype |-> utype, verdict |-> verdict, signout |-> signout,
                                  api |-> api, zero |-> (status' = 0), said |-> said]))
Next == Dispatch \/ Run \/ Exit
Spec == Init /\ [][Next]_vars /\ WF_vars(Next)

(* C17 *)
ExitReflectsVerdict == (pc = "done" /\ cmd = "verify-metadata") => ((status = 0) <=> (verdict = "accept"))
SuccessSaidIffAccept == (pc = "done" /\ cmd = "verify-metadata") => ((said = "success") <=> (verdict = "accept"))
RootDispatch == (pc = "done" /\ cmd = "verify-metadata" /\ utype # "none") => ((api = "verify_root") <=> (utype = "root"))
ZeroOnlyIfSigned == (pc = "done" /\ cmd # "verify-metadata") => ((status = 0) => (signout \in {"signed", "found"}))
Terminates == <>(pc = "done")
=============================================================================
