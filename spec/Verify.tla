----------------------------- MODULE Verify -----------------------------
(***************************************************************************)
(* authentication.verify_signable as a step machine (implementation       *)
(* layer), checked against the declarative requirement layer of CCTTypes.  *)
(*                                                                         *)
(* One initial state per abstract call: a signature map over Names, a set  *)
(* of authorized keys, a threshold and the mode flag.  Actions mirror the  *)
(* code: Start (argument validation + canonical serialization of the       *)
(* presented payload), Examine(n) (one iteration of the loop over the      *)
(* signature map, in any order), Decide (threshold comparison).            *)
(*                                                                         *)
(* MUTANT selects a deliberately wrong variant of the implementation layer *)
(* (kept next to the spec, section 2 of DESIGN.md): TLC must find a        *)
(* counterexample for each, which is the non-vacuity evidence.             *)
(***************************************************************************)
EXTENDS CCTTypes, Json

CONSTANTS AllOrders,   \* TRUE: Examine in every order; FALSE: one canonical order
          MaxThr,      \* thresholds 1..MaxThr
          Emit,        \* TRUE: print one case line per initial state (replay)
          MUTANT       \* "none" or the name of a spec mutant

VARIABLES case, pc, todo, good, outcome
vars == <<case, pc, todo, good, outcome>>

Present(c) == {n \in Names : c.sigs[n].shape # "absent"}

(* requirement layer *)
(* authalt: the authorized-key list additionally contains the alternative spelling of key 1 that is used in the      *)
(* signature map - such a list is not a list of keys (one spelling per key): the call is malformed, never accepted *)
(* tk: the kind of value given as threshold - a positive integer (c.thr itself) or something that is not one (c.thr + 1/2,     *)
(* c.thr - 1/2, 0, -c.thr, the decimal string, null): the call is malformed whatever the signatures, never accepted            *)
ArgFamilies == {"TypeError", "ValueError"}
ThrKindsAll == {"int", "plus_half", "minus_half", "zero", "neg", "str", "null", "list"}
ThrKinds == {"int"}          \* overridden (ThrKinds <- ThrKindsAll) by the configuration that enumerates threshold kinds
(* out: the state of the stream the "Ignoring ..." notices go to - working, or dead (every write fails: the reader of the pipe is     *)
(* gone, the disk behind a redirection is full).  A dead stream may make the call FAIL (an I/O error surfaces) but never makes      *)
(* anything count that would not have counted: the requirement is unchanged except that "OSError" joins every allowed set.           *)
OutKindsAll == {"ok", "dead"}
OutKindsDead == {"dead"}
OutKinds == {"ok"}           \* overridden (OutKinds <- OutKindsAll) by the configuration that enumerates stream states
BadArgs(c) == c.authalt \/ c.tk # "int"
Allowed(c) == (IF c.out = "dead" THEN {"OSError"} ELSE {}) \cup IF BadArgs(c) THEN ArgFamilies
              ELSE IF Meets(c.sigs, c.auth, c.thr, c.gpg) THEN {"accept"} ELSE {"SignatureError"}

(* implementation layer: the filters of the loop body, in the code's order *)
NameOK(n) == IF MUTANT = "altname" THEN n[1] \in {"c", "alt"} ELSE IsCanonName(n)
Classify(c, n) ==
  LET v == c.sigs[n] IN
  IF ~NameOK(n) THEN "badname"
  ELSE IF c.gpg /\ ~GpgShape(v) /\ MUTANT # "noshape" THEN "badshape"
  ELSE IF KeyOf(n) \notin c.auth /\ MUTANT # "noauth" THEN "unauthorized"
  ELSE IF ~c.gpg /\ ~AnyShape(v) /\ MUTANT # "noshape" THEN "badshape"
  ELSE IF (IF MUTANT = "nopayload"
             THEN v.ok /\ v.by = "self" /\ v.fr = (IF c.gpg THEN "gpg" ELSE "raw")
             ELSE IF MUTANT = "nosigner" THEN v.ok /\ v.by # "none" /\ v.over = "P" /\ v.fr = (IF c.gpg THEN "gpg" ELSE "raw")
             ELSE IF MUTANT = "anyframing" THEN v.ok /\ v.by = "self" /\ v.over = "P"
             ELSE SigValid(v, c.gpg))
       THEN "counts" ELSE "invalid"

CaseJson(c) ==
  [ e    |-> [k \in Key |-> LET v == c.sigs[CanonName(k)] IN <<v.shape, v.by, v.over, v.fr, v.ok>>],
    alt  |-> LET v == c.sigs[AltName] IN <<v.shape, v.by, v.over, v.fr, v.ok>>,
    junk |-> LET v == c.sigs[JunkName] IN <<v.shape, v.by, v.over, v.fr, v.ok>>,
    auth |-> c.auth, thr |-> c.thr, tk |-> c.tk, out |-> c.out, gpg |-> c.gpg, authalt |-> c.authalt,
    signers |-> Signers(c.sigs, c.auth, c.gpg),
    strip_ok |-> Meets(Strip(c.sigs, c.auth, c.gpg), c.auth, c.thr, c.gpg),
    allowed |-> Allowed(c) ]

(* one initial state per abstract call (written with \E so that TLC enumerates directly) *)
Init == /\ \E cs \in [Key -> CanonStates], a \in [AltNames -> AltStates], j \in [JunkNames -> JunkStates],
              au \in SUBSET Key, t \in 1..MaxThr, g \in BOOLEAN, aa \in BOOLEAN, k \in ThrKinds, o \in OutKinds :
              /\ (aa => a[AltName] # Absent)
              /\ case = [sigs |-> [n \in Names |-> IF IsCanonName(n) THEN cs[KeyOf(n)] ELSE IF n \in AltNames THEN a[n] ELSE j[n]],
                         auth |-> au, thr |-> t, tk |-> k, out |-> o, gpg |-> g, authalt |-> aa]
        /\ pc = "start" /\ todo = {} /\ good = {} /\ outcome = "none"

Start == /\ pc = "start"
         /\ (Emit => PrintT("@@" \o ToJson(CaseJson(case))))
         /\ IF (case.authalt /\ MUTANT # "altauth_ok") \/ (case.tk # "int" /\ MUTANT # "thr_truncated")
              THEN pc' = "done" /\ outcome' = "TypeError" /\ UNCHANGED <<case, todo, good>>      \* argument validation: not a list of keys
              ELSE pc' = "loop" /\ todo' = Present(case) /\ UNCHANGED <<case, good, outcome>>


(* an entry that is filtered out is reported on the output stream before the loop goes on *)
Noticed(c, n) == Classify(c, n) \in {"badname", "badshape", "unauthorized"}
Examine(n) ==
  /\ pc = "loop" /\ n \in todo
  /\ (AllOrders \/ n = CHOOSE m \in todo : TRUE)
  /\ IF case.out = "dead" /\ Noticed(case, n) /\ MUTANT # "dead_stream_falls_through"
       THEN pc' = "done" /\ outcome' = "OSError" /\ UNCHANGED <<case, todo, good>>          \* the write fails and the error surfaces
       ELSE /\ todo' = IF MUTANT = "breakonbad" /\ Classify(case, n) # "counts" THEN {} ELSE todo \ {n}
            /\ good' = IF Classify(case, n) = "counts"
                           \/ (MUTANT = "dead_stream_falls_through" /\ case.out = "dead" /\ Noticed(case, n) /\ SigValid(case.sigs[n], case.gpg))
                         THEN good \cup {n}      \* the code's accumulator is a dict keyed by the entry *name*
                         ELSE good
            /\ UNCHANGED <<case, pc, outcome>>

Decide ==
  /\ pc = "loop" /\ todo = {}
  /\ pc' = "done"
  /\ outcome' = IF (IF MUTANT = "offbyone" THEN Cardinality(good) + 1 >= case.thr
                    ELSE IF MUTANT = "gt" THEN Cardinality(good) > case.thr
                    ELSE Cardinality(good) >= case.thr)
                  THEN "accept" ELSE "SignatureError"
  /\ UNCHANGED <<case, todo, good>>

Next == Start \/ (\E n \in Names : Examine(n)) \/ Decide
Spec == Init /\ [][Next]_vars /\ WF_vars(Next)

(* ---------------------------------------------------------------------- *)
TypeOK == /\ pc \in {"start", "loop", "done"} /\ todo \subseteq Names
          /\ outcome \in {"none", "accept", "SignatureError", "TypeError", "OSError"}

Sound    == (pc = "done" /\ outcome = "accept") => Cardinality(Signers(case.sigs, case.auth, case.gpg)) >= case.thr
Complete == (pc = "done" /\ case.out = "ok" /\ ~BadArgs(case) /\ Cardinality(Signers(case.sigs, case.auth, case.gpg)) >= case.thr) => outcome = "accept"
MalformedNeverAccepted == (pc = "done" /\ BadArgs(case)) => outcome # "accept"
Refines  == pc = "done" => outcome \in Allowed(case)
(* loop invariant: the accumulator never holds anything but genuine signers, and holds all examined ones *)
GoodExact == (pc \in {"loop", "done"} /\ ~BadArgs(case) /\ outcome # "OSError") =>
               good = {CanonName(k) : k \in {s \in Signers(case.sigs, case.auth, case.gpg) : CanonName(s) \notin todo}}
(* C06, stripping monotonicity at the design level *)
StripMonotone == Meets(case.sigs, case.auth, case.thr, case.gpg)
                   => Meets(Strip(case.sigs, case.auth, case.gpg), case.auth, case.thr, case.gpg)
(* no key contributes twice; alternative spellings and junk never contribute *)
OncePerKey == Cardinality(good) <= Cardinality(case.auth)
Terminates == <>(pc = "done")
=============================================================================
