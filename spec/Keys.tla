-------------------------------- MODULE Keys --------------------------------
(***************************************************************************)
(* Key material and its representations (C19): the graph of conversions    *)
(* among seed bytes, private hex, private object, public object, public    *)
(* bytes, public hex and key files, one action per conversion function of  *)
(* common.MixinKey / PrivateKey / PublicKey, keyfiles_to_* and             *)
(* metadata_construction.gen_and_write_keys.  The value held at a          *)
(* representation is [seed, kind]; the invariant is that it is a function  *)
(* of the seed alone on every path (no conversion loses or mixes key       *)
(* material).  hist records the path for the replay.                       *)
(***************************************************************************)
EXTENDS Naturals, Sequences, FiniteSets, TLC, Json

CONSTANTS Depth, MUTANT

Reps == {"priv_bytes", "priv_hex", "priv_obj", "pub_obj", "pub_bytes", "pub_hex", "files"}
KindOf(rep) == IF rep \in {"priv_bytes", "priv_hex", "priv_obj"} THEN "priv" ELSE IF rep = "files" THEN "pair" ELSE "pub"
(* conversion edges: <<from, to, library function>> *)
Edges == { <<"priv_bytes", "priv_obj", "PrivateKey.from_bytes">>,
           <<"priv_obj", "priv_bytes", "PrivateKey.to_bytes">>,
           <<"priv_obj", "priv_hex", "PrivateKey.to_hex">>,
           <<"priv_hex", "priv_obj", "PrivateKey.from_hex">>,
           <<"priv_obj", "pub_obj", "public_key">>,
           <<"pub_obj", "pub_bytes", "PublicKey.to_bytes">>,
           <<"pub_bytes", "pub_obj", "PublicKey.from_bytes">>,
           <<"pub_obj", "pub_hex", "PublicKey.to_hex">>,
           <<"pub_hex", "pub_obj", "PublicKey.from_hex">>,
           <<"priv_obj", "files", "write_key_files">>,
           <<"files", "priv_obj", "keyfiles_to_keys.private">>,
           <<"files", "pub_obj", "keyfiles_to_keys.public">>,
           <<"files", "priv_bytes", "keyfiles_to_bytes.private">>,
           <<"files", "pub_bytes", "keyfiles_to_bytes.public">> }

VARIABLES rep, val, hist
vars == <<rep, val, hist>>
(* the same 32 bytes may be used as a private seed or (if they happen to encode a point) as a public key: both *)
(* families of paths are walked over the SAME byte string, in one process                                      *)
Init == /\ rep \in {"priv_bytes", "pub_bytes"} /\ val = [seed |-> "s", kind |-> KindOf(rep)]
        /\ hist = <<IF rep = "priv_bytes" THEN "start:private" ELSE "start:public">>
Convert(e) ==
  /\ rep = e[1] /\ Len(hist) < Depth + 1
  /\ rep' = e[2]
  /\ val' = [seed |-> (IF MUTANT = "files_swap" /\ e[3] = "keyfiles_to_keys.public" THEN "other" ELSE val.seed),
             kind |-> (IF MUTANT = "pub_is_priv" /\ e[3] = "public_key" THEN "priv" ELSE KindOf(e[2]))]
  /\ hist' = Append(hist, e[3])
Next == \E e \in Edges : Convert(e)
Spec == Init /\ [][Next]_vars

FunctionOfSeed == val.seed = "s" /\ val.kind = KindOf(rep)
EmitPath == Len(hist) < Depth + 1 \/ PrintT("@@" \o ToJson(hist))
=============================================================================
