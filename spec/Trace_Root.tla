--------------------------- MODULE Trace_Root ---------------------------
(* Trace validation for verify_root: every logged call is explained by Root's own stage actions; the  *)
(* logged outcome must be in Root!Allowed (requirement layer); drift = differs from the prediction.   *)
EXTENDS Root, IOUtils

Traces == JsonDeserialize(IOEnv.TRACE_FILE)
VARIABLES tid, l, phase
tvars == <<vars, tid, l, phase>>
Ev == Traces[tid].events[l]

DocOf(d) == [type |-> d.type, ver |-> d.ver, rk |-> SeqToSet(d.rk), rt |-> d.rt, hasroot |-> d.hasroot, wf |-> d.wf, wfc |-> 0]
CaseOf(ev) == [t |-> DocOf(ev.t), n |-> DocOf(ev.n), sigs |-> SigsFromEntries(ev.entries)]

TInit == /\ tid \in DOMAIN Traces /\ l = 1 /\ phase = "idle"
         /\ case = [t |-> Doc("root", 1, {}, 1, TRUE, "ok", 0), n |-> Doc("root", 1, {}, 1, TRUE, "ok", 0), sigs |-> [n \in Names |-> Absent]]
         /\ pc = "idle" /\ outcome = "none"
Begin == /\ phase = "idle" /\ l <= Len(Traces[tid].events)
         /\ case' = CaseOf(Ev) /\ pc' = "CheckTrusted" /\ outcome' = "none"
         /\ phase' = "run" /\ UNCHANGED <<tid, l>>
Step  == phase = "run" /\ pc # "done" /\ Next /\ UNCHANGED <<tid, l, phase>>
End   == /\ phase = "run" /\ pc = "done"
         /\ PrintT("@@" \o ToJson([tid |-> Traces[tid].id, l |-> l, ok |-> Ev.outcome \in Allowed(case),
                                   allowed |-> Allowed(case), predicted |-> outcome]))
         /\ l' = l + 1 /\ phase' = "idle" /\ UNCHANGED <<vars, tid>>
TNext == Begin \/ Step \/ End
=============================================================================
